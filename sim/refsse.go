package sim

// Reference interpreter for text/event-stream, written from the WHATWG HTML
// standard, section 9.2.5/9.2.6 ("Parsing an event stream", "Interpreting an
// event stream"), with go-sse's three documented adaptations as stated in
// property C01. It works on the whole byte string, so it cannot depend on how
// the string is split into reads. It shares no code with go-sse.

// RefEvent is one dispatched event.
type RefEvent struct {
	ID   string // value of the last event ID buffer at dispatch
	Type string // adaptation 2: left empty when no event field was seen
	Data string
}

// RefRetry is a valid retry field, with the number of events dispatched before it.
type RefRetry struct {
	Millis      int64
	EventsSoFar int
}

// RefResult is the prescribed interpretation of a complete stream that ended cleanly.
type RefResult struct {
	Events []RefEvent
	// End[i] is the byte offset just after the line terminator of the blank
	// line (or the end of stream) that dispatched Events[i].
	End []int
	// Unterminated: the stream ends in a non-empty line without terminator
	// (adaptation 3: pending event discarded, ErrUnexpectedEOF reported).
	Unterminated bool
	// FlushedAtEOF: the last event was dispatched by the end of stream rather
	// than by a blank line (adaptation 3).
	FlushedAtEOF bool
	Retries      []RefRetry
	// A block is a maximal run of blank lines, then one or more non-blank
	// lines, then the blank line that ends them (the grammar's "event" with
	// the blank lines preceding it). MaxSpan is the size of the largest
	// block, the unterminated tail of the stream included; BlockEnds are the
	// offsets just after each complete block.
	MaxSpan   int
	BlockEnds []int
	// TailSpan is the number of bytes after the last complete block.
	TailSpan int
	// LastID is the last event ID buffer after the last dispatched event.
	LastID string
	Lines  int
	// RetryOutOfBounds: a digits-only retry value above 10^12 ms occurred. The
	// properties bound retry values to 10^12 ms; whether such a field counts is
	// left open (go-sse accepts what fits an int64).
	RetryOutOfBounds bool
}

func isASCIIDigits(s string) bool {
	if s == "" {
		return false // an empty value is not a base-ten integer
	}
	for i := 0; i < len(s); i++ {
		if s[i] < '0' || s[i] > '9' {
			return false
		}
	}
	return true
}

// parseDecimal interprets a non-empty ASCII digit string; ok is false above 10^15
// (far beyond the 10^12 ms bound of the properties, and still exact in int64).
func parseDecimal(s string) (int64, bool) {
	var n int64
	for i := 0; i < len(s); i++ {
		n = n*10 + int64(s[i]-'0')
		if n > 1_000_000_000_000_000 {
			return 0, false
		}
	}
	return n, true
}

// RefInterpret interprets stream. initialID is the last event ID the
// interpreter starts with (empty for Read and for a first connection). conn
// selects the Connection flavour of adaptation 1 (a valid retry field also
// makes the event dispatchable).
func RefInterpret(stream []byte, initialID string, conn bool) RefResult {
	var res RefResult
	s := stream
	off := 0
	// "The UTF-8 decode algorithm strips one leading UTF-8 Byte Order Mark (BOM), if any."
	if len(s) >= 3 && s[0] == 0xEF && s[1] == 0xBB && s[2] == 0xBF {
		off = 3
	}
	lastID := initialID
	var data []byte
	typ := ""
	seen := false // adaptation 1: any of data/event/id (conn: valid retry) seen since last dispatch
	blockStart, nonBlank := 0, false

	dispatch := func(end int) {
		if !seen {
			// nothing to dispatch: blank line without pending fields
			return
		}
		d := data
		if len(d) > 0 && d[len(d)-1] == '\n' {
			d = d[:len(d)-1]
		}
		res.Events = append(res.Events, RefEvent{ID: lastID, Type: typ, Data: string(d)})
		res.End = append(res.End, end)
		res.LastID = lastID
		data = data[:0]
		typ = ""
		seen = false
	}

	for off < len(s) {
		// find end of line
		i := off
		for i < len(s) && s[i] != '\n' && s[i] != '\r' {
			i++
		}
		if i == len(s) {
			// non-empty line without terminator at end of stream
			res.Unterminated = true
			break
		}
		line := s[off:i]
		next := i + 1
		if s[i] == '\r' && next < len(s) && s[next] == '\n' {
			next++
		}
		off = next
		res.Lines++

		switch {
		case len(line) == 0:
			dispatch(off)
			if nonBlank {
				if span := off - blockStart; span > res.MaxSpan {
					res.MaxSpan = span
				}
				res.BlockEnds = append(res.BlockEnds, off)
				blockStart, nonBlank = off, false
			}
		case line[0] == ':':
			nonBlank = true // comment
		default:
			nonBlank = true
			name, value := line, []byte(nil)
			for k := 0; k < len(line); k++ {
				if line[k] == ':' {
					name, value = line[:k], line[k+1:]
					if len(value) > 0 && value[0] == ' ' {
						value = value[1:]
					}
					break
				}
			}
			switch string(name) {
			case "event":
				typ = string(value)
				seen = true
			case "data":
				data = append(data, value...)
				data = append(data, '\n')
				seen = true
			case "id":
				hasNUL := false
				for _, c := range value {
					if c == 0 {
						hasNUL = true
						break
					}
				}
				if !hasNUL {
					lastID = string(value)
					seen = true
				}
			case "retry":
				if isASCIIDigits(string(value)) {
					if n, ok := parseDecimal(string(value)); !ok || n > 1_000_000_000_000 {
						res.RetryOutOfBounds = true
					}
					if n, ok := parseDecimal(string(value)); ok {
						res.Retries = append(res.Retries, RefRetry{Millis: n, EventsSoFar: len(res.Events)})
						if conn {
							seen = true
						}
					}
				}
			}
		}
	}
	res.TailSpan = len(s) - blockStart
	if res.TailSpan > res.MaxSpan {
		res.MaxSpan = res.TailSpan
	}
	if !res.Unterminated && seen {
		// adaptation 3: clean end after a terminated line dispatches the pending event
		dispatch(len(s))
		res.FlushedAtEOF = true
	}
	return res
}
