package sim

import (
	"context"
	"errors"
	"fmt"
	"io"
	"net/http"
	"strconv"
	"strings"
	"time"

	sse "github.com/tmaxmax/go-sse"
)

// ---------------------------------------------------------------- running go-sse over a simulated reader

type streamObs struct {
	events       []RefEvent
	err          error
	eventWithErr bool // an event was yielded together with an error
	afterErr     int  // yields after an error
	afterStop    int  // yields after the consumer stopped
	panicked     any
}

// runRead feeds r through sse.Read, stopping after stopAfter events (<0: never).
func runRead(r io.Reader, cfg *sse.ReadConfig, stopAfter int) (obs streamObs) {
	return runReadAgain(r, cfg, stopAfter, nil)
}

// runReadAgain is runRead; when between is not nil it is called after the loop over the sequence
// has ended and the same sequence is then ranged over a second time. What a second loop yields is
// not prescribed (the first loop's parser may have buffered bytes it did not use), but it must not
// panic.
func runReadAgain(r io.Reader, cfg *sse.ReadConfig, stopAfter int, between func()) (obs streamObs) {
	var seq func(func(sse.Event, error) bool)
	func() {
		defer func() {
			if p := recover(); p != nil {
				obs.panicked = p
			}
		}()
		stopped, sawErr := false, false
		seq = sse.Read(r, cfg)
		seq(func(e sse.Event, err error) bool {
			if stopped {
				obs.afterStop++
				return false
			}
			if sawErr {
				obs.afterErr++
				return false
			}
			if err != nil {
				sawErr = true
				obs.err = err
				if e != (sse.Event{}) {
					obs.eventWithErr = true
				}
				return true // keep going: nothing may follow an error
			}
			obs.events = append(obs.events, RefEvent{ID: e.LastEventID, Type: e.Type, Data: e.Data})
			if stopAfter >= 0 && len(obs.events) >= stopAfter {
				stopped = true
				return false
			}
			return true
		})
	}()
	if between == nil || obs.panicked != nil {
		return obs
	}
	between()
	func() {
		defer func() {
			if p := recover(); p != nil {
				obs.panicked = fmt.Sprintf("second loop over the same Read sequence: %v", p)
			}
		}()
		n := 0
		seq(func(sse.Event, error) bool { n++; return n < 64 })
	}()
	return obs
}

type oneShotRT struct {
	body   io.Reader
	closed bool
}

type bodyCloser struct {
	io.Reader
	rt *oneShotRT
}

func (b bodyCloser) Close() error { b.rt.closed = true; return nil }

func (rt *oneShotRT) RoundTrip(req *http.Request) (*http.Response, error) {
	return &http.Response{
		StatusCode: 200, Status: "200 OK", Proto: "HTTP/1.1", ProtoMajor: 1, ProtoMinor: 1,
		Header:  http.Header{"Content-Type": []string{"text/event-stream"}},
		Body:    bodyCloser{rt.body, rt},
		Request: req,
	}, nil
}

// runConnWarm is runConn on a connection's SECOND attempt: the first attempt gets a stream of one
// small event that ends cleanly, the reconnection gets r; a third attempt is refused by cancelling
// the request. The buffer configuration must hold for every attempt, not only the first.
func runConnWarm(r io.Reader, buf []byte, maxSize int) (obs streamObs) {
	defer func() {
		if p := recover(); p != nil {
			obs.panicked = p
		}
	}()
	ctx, cancel := context.WithCancel(context.Background())
	defer cancel()
	rt := &seqRT{bodies: []io.Reader{strings.NewReader("data: warm-up\n\n"), r}, cancel: cancel}
	var attemptErrs []error
	client := sse.Client{
		HTTPClient: &http.Client{Transport: rt},
		Backoff:    sse.Backoff{InitialInterval: time.Nanosecond, Jitter: -1, Multiplier: 1},
		OnRetry:    func(err error, _ time.Duration) { attemptErrs = append(attemptErrs, err) },
	}
	req, _ := http.NewRequestWithContext(ctx, http.MethodGet, "http://sim.invalid/", nil)
	conn := client.NewConnection(req)
	if buf != nil || maxSize > 0 {
		conn.Buffer(buf, maxSize)
	}
	conn.SubscribeToAll(func(e sse.Event) {
		obs.events = append(obs.events, RefEvent{ID: e.LastEventID, Type: e.Type, Data: e.Data})
	})
	_ = conn.Connect()
	if len(obs.events) == 0 || obs.events[0].Data != "warm-up" {
		obs.panicked = fmt.Sprintf("harness: the warm-up attempt did not deliver its event (got %v)", obs.events)
		return obs
	}
	obs.events = obs.events[1:]
	if len(attemptErrs) >= 2 {
		obs.err = attemptErrs[1] // how the second attempt ended
	}
	return obs
}

// seqRT serves its bodies one per attempt and cancels the request when they are used up.
type seqRT struct {
	bodies []io.Reader
	n      int
	cancel context.CancelFunc
}

func (rt *seqRT) RoundTrip(req *http.Request) (*http.Response, error) {
	if rt.n >= len(rt.bodies) {
		rt.cancel()
		return nil, context.Canceled
	}
	body := rt.bodies[rt.n]
	rt.n++
	return &http.Response{
		StatusCode: 200, Status: "200 OK", Proto: "HTTP/1.1", ProtoMajor: 1, ProtoMinor: 1,
		Header:  http.Header{"Content-Type": []string{"text/event-stream"}},
		Body:    io.NopCloser(body),
		Request: req,
	}, nil
}

// runConn feeds r through a Connection (single attempt, no retries).
func runConn(r io.Reader, buf []byte, maxSize int) (obs streamObs, retries []int64) {
	defer func() {
		if p := recover(); p != nil {
			obs.panicked = p
		}
	}()
	rt := &oneShotRT{body: r}
	client := sse.Client{
		HTTPClient: &http.Client{Transport: rt},
		Backoff:    sse.Backoff{MaxRetries: -1},
	}
	req, _ := http.NewRequestWithContext(context.Background(), http.MethodGet, "http://sim.invalid/", nil)
	conn := client.NewConnection(req)
	if buf != nil || maxSize > 0 {
		conn.Buffer(buf, maxSize)
	}
	conn.SubscribeToAll(func(e sse.Event) {
		obs.events = append(obs.events, RefEvent{ID: e.LastEventID, Type: e.Type, Data: e.Data})
	})
	obs.err = conn.Connect()
	return obs, retries
}

// ---------------------------------------------------------------- C01 oracle

type endKind int

const (
	endEOF endKind = iota
	endError
)

// expectedFor gives the prescribed events and end class for a stream that ends
// at its last byte with kind.
func expectedFor(stream []byte, kind endKind, conn bool) (events []RefEvent, wantUnexpectedEOF bool, ref RefResult) {
	ref = RefInterpret(stream, "", conn)
	events = ref.Events
	if kind == endError && ref.FlushedAtEOF {
		// not a clean end: the pending event is discarded
		events = events[:len(events)-1]
	}
	return events, kind == endEOF && ref.Unterminated, ref
}

func describeEvents(evs []RefEvent) string {
	s := "["
	for i, e := range evs {
		if i > 0 {
			s += " "
		}
		s += fmt.Sprintf("{id=%q type=%q data=%q}", e.ID, e.Type, e.Data)
	}
	return s + "]"
}

func eventsEqual(a, b []RefEvent) bool {
	if len(a) != len(b) {
		return false
	}
	for i := range a {
		if a[i] != b[i] {
			return false
		}
	}
	return true
}

func isPrefix(p, full []RefEvent) bool {
	return len(p) <= len(full) && eventsEqual(p, full[:len(p)])
}

// checkStream compares one observation with the reference. entry is "Read" or "Connection".
func checkStreamC01(o *Outcome, entry string, stream []byte, kind endKind, seg string, stopAfter int, obs streamObs) {
	conn := entry == "Connection"
	want, wantUEOF, _ := expectedFor(stream, kind, conn)
	ctx := func() string {
		return fmt.Sprintf("entry=%s stream=%q end=%s segmentation=%s", entry, stream, map[endKind]string{endEOF: "EOF", endError: "error"}[kind], seg)
	}
	if obs.panicked != nil {
		o.violate("C01", "panic", "%s: panic %v", ctx(), obs.panicked)
		return
	}
	if obs.eventWithErr {
		o.violate("C01", "event-with-error", "%s: an event was yielded together with error %v", ctx(), obs.err)
	}
	if obs.afterErr > 0 {
		o.violate("C01", "yield-after-error", "%s: %d yields after the error", ctx(), obs.afterErr)
	}
	if obs.afterStop > 0 {
		o.violate("C01", "yield-after-stop", "%s: %d yields after the consumer stopped", ctx(), obs.afterStop)
	}
	if stopAfter >= 0 && stopAfter <= len(want) && stopAfter > 0 {
		if !eventsEqual(obs.events, want[:stopAfter]) {
			o.violate("C01", "early-stop-prefix", "%s stop-after=%d: got %s, want prefix of %s", ctx(), stopAfter, describeEvents(obs.events), describeEvents(want))
		}
		return
	}
	if !eventsEqual(obs.events, want) {
		o.violate("C01", "events", "%s: got %s, want %s", ctx(), describeEvents(obs.events), describeEvents(want))
		return
	}
	gotUEOF := errors.Is(obs.err, sse.ErrUnexpectedEOF)
	switch {
	case kind == endError:
		if obs.err == nil {
			o.violate("C01", "end-condition", "%s: stream ended with a read error but no error was reported", ctx())
		}
		// which error is reported is C11's clause
	case wantUEOF && !gotUEOF:
		o.violate("C01", "end-condition", "%s: last line unterminated, want ErrUnexpectedEOF, got %v", ctx(), obs.err)
	case !wantUEOF && gotUEOF:
		o.violate("C01", "end-condition", "%s: stream ended cleanly after a terminated line, got ErrUnexpectedEOF", ctx())
	case !wantUEOF && !conn && obs.err != nil:
		o.violate("C01", "end-condition", "%s: clean end, Read reported %v", ctx(), obs.err)
	}
}

// isBOMCase: the stream contains a BOM somewhere else than at offset 0.
func isBOMCase(stream []byte) bool {
	for i := 1; i+2 < len(stream); i++ {
		if stream[i] == 0xEF && stream[i+1] == 0xBB && stream[i+2] == 0xBF {
			return true
		}
	}
	return false
}

const defaultMaxEvent = 64 * 1024

// checkReadErrorIdentity feeds stream through sse.Read with a drawn end (clean, or a read error
// of a drawn identity, alone or together with the last bytes) and checks C11's Read clause: a read
// error is reported as itself; ErrUnexpectedEOF only for a clean end in mid-line; nothing otherwise.
func checkReadErrorIdentity(o *Outcome, ch *Chooser, stream []byte) {
	if RefInterpret(stream, "", false).MaxSpan >= defaultMaxEvent-8 {
		return
	}
	endErr := error(io.EOF)
	isErr := ch.Chance(1, 2, "Read ends with an error")
	if isErr {
		endErr = newInjectedAs("read at the end of the stream", drawDisguise(ch, "read error"))
	}
	r := &simReader{data: stream, end: len(stream), endErr: endErr, withData: ch.Chance(1, 3, "error delivered with data"), ch: ch}
	obs := runRead(r, nil, -1)
	o.probe("stream also read through sse.Read (error identity)")
	switch {
	case obs.panicked != nil:
		o.violate("C11", "panic", "sse.Read over %q panicked: %v", stream, obs.panicked)
	case isErr && !errors.Is(obs.err, endErr):
		o.violate("C11", "read-error-identity", "sse.Read over %q ended by the read error %v reported %v", stream, endErr, obs.err)
	case !isErr && RefInterpret(stream, "", false).Unterminated && !errors.Is(obs.err, sse.ErrUnexpectedEOF):
		o.violate("C11", "eof-identity", "sse.Read over %q, which ends cleanly in mid-line, reported %v, want ErrUnexpectedEOF", stream, obs.err)
	case !isErr && !RefInterpret(stream, "", false).Unterminated && obs.err != nil:
		o.violate("C11", "eof-identity", "sse.Read over %q, which ends cleanly after a terminated line, reported %v", stream, obs.err)
	}
}

func runStreamWorld(rc *RunCtx) *Outcome {
	o := newOutcome()
	if rc.KeepLog {
		o.Log = []string{}
	}
	ch := rc.Ch
	if ch.Chance(1, 4, "other parts of the library used in this process first") {
		// what a program does before it starts reading a stream must not matter: decode a message,
		// encode one, make IDs (anything kept between calls - pools, caches - would show here)
		var m sse.Message
		_ = m.UnmarshalText([]byte("id: 1\n: a comment\ndata: x\nretry: 5\n\n"))
		_ = m.String()
		_, _ = sse.NewID("abc")
		o.probe("other API used in the process before parsing")
	}
	data := genStream(ch)
	end := len(data)
	if ch.Chance(1, 3, "cut stream") {
		end = ch.Range(0, len(data), "cut offset")
	}
	stream := data[:end]
	kind := endEOF
	if ch.Chance(1, 4, "end with error") {
		kind = endError
		o.fault("read error at end offset")
	} else {
		o.fault("clean EOF at chosen offset")
	}
	withData := ch.Chance(1, 3, "error delivered with data")
	entry := "Read"
	if ch.Chance(1, 4, "connection entry") {
		entry = "Connection"
	}
	_, _, ref := expectedFor(stream, kind, entry == "Connection")
	if ref.RetryOutOfBounds && entry == "Connection" {
		// a retry value beyond the properties' bound of 10^12 ms: whether it counts as a field is left open
		o.Inconclusive = true
		return o
	}
	if ref.MaxSpan >= defaultMaxEvent-8 {
		// beyond the default limit: C20's territory
		o.Inconclusive = true
		return o
	}
	endErr := error(io.EOF)
	if kind == endError {
		// io.Reader: a clean end is io.EOF itself; an error that merely wraps or matches it is a failure
		endErr = newInjectedAs("read at offset "+strconv.Itoa(end), drawDisguise(ch, "read error"))
	}
	// a buffer configuration that is large enough for every event here must not change anything
	var cfg *sse.ReadConfig
	var connBuf []byte
	connMax := 0
	bufMode := ch.Weighted([]int{6, 1, 1, 1}, "buffer configuration")
	switch {
	case bufMode == 0:
	case entry == "Read":
		cfg = &sse.ReadConfig{MaxEventSize: 1 << 17}
	case bufMode == 1:
		connMax = 1 << 17
	case bufMode == 2: // "scan in this buffer only": bufio.Scanner.Buffer with a maximum not above cap(buf)
		connBuf = make([]byte, 0, 1<<17)
		connMax = []int{0, -1, 4096}[ch.Intn(3, "maximum below the buffer's capacity")]
	case bufMode == 3:
		connBuf = make([]byte, 0, 16)
		connMax = 1 << 17
	}
	if bufMode != 0 {
		o.probe("generous buffer configured")
	}
	again := entry == "Read" && ch.Chance(1, 4, "second loop over the sequence")
	if again {
		o.probe("Read sequence ranged over twice")
	}
	o.logf("stream %q", stream)
	o.logf("end=%v kind=%d entry=%s bufMode=%d max=%d again=%v", end, kind, entry, bufMode, connMax, again)

	run := func(plan []int, seg string, stopAfter int) {
		r := &simReader{data: data, end: end, endErr: endErr, withData: withData, plan: plan, ch: ch}
		var obs streamObs
		if entry == "Read" {
			var between func()
			if again {
				between = func() {}
			}
			obs = runReadAgain(r, cfg, stopAfter, between)
		} else {
			obs, _ = runConn(r, connBuf, connMax)
		}
		if seg == "" {
			seg = fmt.Sprint(r.cuts)
		}
		o.logf("segmentation %s stop=%d -> %s err=%v", seg, stopAfter, describeEvents(obs.events), obs.err)
		before := len(o.Violations)
		checkStreamC01(o, entry, stream, kind, seg, stopAfter, obs)
		probeStream(o, stream, r.cuts, entry)
		if len(o.Violations) > before {
			return
		}
	}

	// one chooser-drawn segmentation, optionally stopping early
	stopAfter := -1
	if entry == "Read" && len(ref.Events) > 0 && ch.Chance(1, 4, "early stop") {
		stopAfter = ch.Range(1, len(ref.Events), "stop after")
		o.probe("early stop")
	}
	run(nil, "", stopAfter)
	o.fault("chunked reads (chooser-drawn sizes)")

	// systematic segmentations for short streams
	if len(o.Violations) == 0 && end <= 48 {
		run([]int{end + 1}, "whole", -1)
		run([]int{1}, "byte-at-a-time", -1)
		for c := 1; c < end && len(o.Violations) == 0; c++ {
			run([]int{c, end}, fmt.Sprintf("cut@%d", c), -1)
		}
		o.fault("every single cut point + byte-at-a-time")
	}

	h := newHasher()
	h.bytes(stream)
	h.int(int(kind))
	h.str(entry)
	o.Key = uint64(h)
	o.Nontrivial = ref.Lines >= 1 && len(stream) >= 2
	sh := newHasher()
	sh.int(len(ref.Events))
	sh.int(ref.Lines)
	sh.int(b2i(ref.Unterminated))
	sh.int(int(kind))
	sh.int(b2i(ref.FlushedAtEOF))
	o.States = append(o.States, uint64(sh))
	o.Sample = map[string]any{"stream": string(stream), "end": map[endKind]string{endEOF: "EOF", endError: "error"}[kind], "entry": entry, "expected_events": len(ref.Events)}
	lh := newHasher()
	for _, l := range o.Log {
		lh.str(l)
	}
	o.LogHash = uint64(lh)
	return o
}

func b2i(b bool) int {
	if b {
		return 1
	}
	return 0
}

// probeStream counts the rare conditions named in DESIGN.md C01.
func probeStream(o *Outcome, s []byte, cuts []int, entry string) {
	for _, c := range cuts {
		if c > 0 && c < len(s) && s[c-1] == '\r' && s[c] == '\n' {
			o.probe("cut inside CRLF")
			if c >= 2 && (s[c-2] == '\n' || s[c-2] == '\r') || c+1 <= len(s) && c >= 3 && s[c-2] == '\n' {
				o.probe("cut inside CRLF that ends an event")
			}
		}
		if c >= 1 && c <= 2 && len(s) >= 3 && s[0] == 0xEF && s[1] == 0xBB && s[2] == 0xBF {
			o.probe("BOM split across reads")
		}
	}
	if len(s) > 0 && s[len(s)-1] == '\r' {
		o.probe("CR as last byte")
	}
	if isBOMCase(s) {
		// BOM after leading blank lines?
		i := 0
		for i < len(s) && (s[i] == '\n' || s[i] == '\r') {
			i++
		}
		if i > 0 && i+2 < len(s) && s[i] == 0xEF && s[i+1] == 0xBB && s[i+2] == 0xBF {
			o.probe("BOM after leading blank lines")
		}
	}
	if len(s) > 4096 {
		o.probe("stream crossing 4096")
	}
	if len(s) > 65536 {
		o.probe("stream longer than 64 KiB (all events below the limit)")
	}
	if entry == "Connection" {
		for i := 0; i+7 < len(s); i++ {
			if string(s[i:i+6]) == "retry:" && (s[i+6] == '+' || s[i+6] == '-' || (s[i+6] == ' ' && (s[i+7] == '+' || s[i+7] == '-'))) {
				o.probe("sign-prefixed retry on Connection")
				break
			}
		}
	}
}

func init() {
	register(&World{
		Name:  "stream",
		Level: "exploration",
		Rule: "each evaluation draws a byte string from a protocol-biased token alphabet, an end (clean EOF or injected read error at a chosen offset, plain or wrapping / matching io.EOF and other sentinels, alone or together with the last bytes), an entry point (Read / Connection), a buffer configuration that is large enough to change nothing, and a segmentation; a quarter of the Read runs range over the sequence a second time; streams of at most 48 bytes are additionally run whole, byte-at-a-time and with every single cut point. " +
			"A case is non-trivial when the stream has at least one complete line and two bytes; distinct = distinct (stream bytes, end kind, entry).",
		Real: []string{"sse.Read", "internal/parser (splitFunc, FieldParser, Parser)", "event.go read()", "Client/Connection.Connect single attempt", "net/http.Client"},
		Stub: []string{"io.Reader serving chooser-sized chunks (simReader)", "http.RoundTripper returning one scripted 200 response"},
		Assumptions: []string{
			"byte-transparent comparison: UTF-8 decoding with U+FFFD replacement, which the standard puts before parsing, is not go-sse's job and is not applied by the reference either",
			"an empty retry value is not a valid base-ten integer",
			"streams whose largest block reaches the 64 KiB default limit are left to C20",
			"which error is reported for an injected read error is decided by C11, not here",
		},
		MustProbes: []string{"cut inside CRLF", "BOM after leading blank lines", "BOM split across reads", "CR as last byte", "stream crossing 4096", "sign-prefixed retry on Connection", "early stop"},
		Run:        runStreamWorld,
	}, "C01")
}
