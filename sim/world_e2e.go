package sim

import (
	"context"
	"errors"
	"fmt"
	"io"
	"log/slog"
	"net/http"
	"strconv"
	"strings"
	"testing"
	"testing/synctest"
	"time"

	sse "github.com/tmaxmax/go-sse"
	"github.com/tmaxmax/go-sse/verifhook"
)

// E2E world (DESIGN.md 3, C05): real Server over real Joe over a real
// replayer, real Session and Message encoding, simnet, real Client /
// Connection / parser; publisher tasks; a cutter that cuts connections at any
// byte offset (abruptly, or by ending the handler after the stream started).
// Only net/http's plumbing is a stub.

type connKey struct{}

// simConn is one simulated HTTP exchange.
type simConn struct {
	w  *e2eWorld
	cl *e2eClient
	id int

	reqHeader http.Header
	clientCtx context.Context

	srvCtx    context.Context
	srvCancel context.CancelFunc

	// server side
	respHeader  http.Header
	status      int
	pending     []byte // written, not flushed
	wroteHeader bool
	handlerDone bool
	writeErrs   int

	// wire
	delivered   []byte // flushed bytes, visible to the client (body only)
	headersSent bool
	cut         bool
	cutLimit    int   // body bytes the client can still read after the cut
	cutErr      error // what the client's Read reports at the cut
	cancelMode  int   // when the server-side request context is cancelled after an abrupt cut: 0 at once, 1 at the failing write, 2 later

	// client side
	readPos      int
	bodyClosed   bool
	gotResponse  bool
	eventsBefore int // events the client had received when this connection started
	sentAny      bool
}

type simRW struct{ c *simConn }

func (rw *simRW) Header() http.Header { return rw.c.respHeader }

func (rw *simRW) WriteHeader(code int) {
	if !rw.c.wroteHeader {
		rw.c.wroteHeader = true
		rw.c.status = code
	}
}

// afterHandler: net/http forbids any use of the ResponseWriter after the handler
// returned (its buffers are recycled: in a real server this is a nil dereference
// in a goroutine nobody recovers, i.e. the process dies).
func (c *simConn) afterHandler(what string) {
	if c.handlerDone {
		c.w.o.violate("C05", "writer-used-after-handler-returned", "conn%d: %s on the http.ResponseWriter after its handler had returned (with net/http this crashes the server process)", c.id, what)
	}
}

func (rw *simRW) Write(p []byte) (int, error) {
	c := rw.c
	c.afterHandler("Write")
	c.w.sim.YieldHere("rw.Write")
	if c.cut || c.bodyClosed {
		// a buffered writer on a dead connection may take part of p before the failure shows
		n := 0
		if len(p) > 1 && c.w.ch.Chance(1, 2, "failing write accepts a part") {
			n = c.w.ch.Intn(len(p), "bytes accepted by the failing write")
			c.w.o.probe("server-side write failed after accepting a part")
		}
		return n, c.serverWriteFailed("write")
	}
	if !c.wroteHeader {
		rw.WriteHeader(200)
	}
	c.pending = append(c.pending, p...)
	return len(p), nil
}

// FlushError is what net/http's response writer offers since Go 1.20.
func (rw *simRW) FlushError() error {
	c := rw.c
	c.afterHandler("Flush")
	c.w.sim.YieldHere("rw.Flush")
	if c.cut || c.bodyClosed {
		return c.serverWriteFailed("flush")
	}
	if !c.wroteHeader {
		rw.WriteHeader(200)
	}
	c.flushToWire()
	return nil
}

func (rw *simRW) Flush() { _ = rw.FlushError() }

func (c *simConn) flushToWire() {
	c.headersSent = true
	if len(c.pending) > 0 {
		c.delivered = append(c.delivered, c.pending...)
		c.pending = c.pending[:0]
		c.sentAny = true
	}
}

func (c *simConn) serverWriteFailed(what string) error {
	c.writeErrs++
	c.w.o.fault("server-side " + what + " fails after the connection was cut")
	if c.cancelMode == 1 {
		c.srvCancel() // net/http cancels the request context when a write fails
	}
	return newInjected(fmt.Sprintf("conn%d %s on a cut connection", c.id, what))
}

// ---------------------------------------------------------------- client side of simnet

type e2eRT struct {
	w  *e2eWorld
	cl *e2eClient
}

type e2eBody struct{ c *simConn }

func (rt *e2eRT) RoundTrip(req *http.Request) (*http.Response, error) {
	w := rt.w
	cl := rt.cl
	c := &simConn{w: w, cl: cl, id: len(w.conns) + 1, reqHeader: req.Header.Clone(), clientCtx: req.Context(), respHeader: http.Header{}, eventsBefore: len(cl.received)}
	c.srvCtx, c.srvCancel = context.WithCancel(context.WithValue(context.Background(), connKey{}, c.id))
	c.cancelMode = w.ch.Weighted([]int{2, 3, 2}, "server context cancellation mode")
	w.conns = append(w.conns, c)
	cl.conns = append(cl.conns, c)
	w.sim.Logf("RoundTrip", "client%d conn%d Last-Event-ID=%q", cl.id, c.id, req.Header.Values("Last-Event-ID"))

	sreq, err := http.NewRequestWithContext(c.srvCtx, req.Method, "http://sim.invalid/events", nil)
	if err != nil {
		panic(err)
	}
	for k, v := range req.Header {
		sreq.Header[k] = append([]string(nil), v...)
	}
	sreq.Header.Set("X-Sim-Client", strconv.Itoa(cl.id))
	w.sim.Spawn(fmt.Sprintf("handler%d", c.id), func() {
		w.server.ServeHTTP(&simRW{c}, sreq)
		// net/http flushes what is buffered when the handler returns
		if !c.cut && !c.bodyClosed {
			if !c.wroteHeader {
				c.wroteHeader, c.status = true, 200
			}
			c.flushToWire()
		}
		c.handlerDone = true
		w.sim.Logf("handler", "conn%d returned", c.id)
	})
	w.sim.WaitFor("RoundTrip waits for response headers", func() bool {
		return c.headersSent || c.handlerDone || c.cut || c.clientCtx.Err() != nil
	})
	switch {
	case c.clientCtx.Err() != nil:
		c.srvCancel()
		return nil, c.clientCtx.Err()
	case c.cut && !c.headersSent:
		w.o.probe("cut before the response headers")
		return nil, c.cutErr
	}
	c.gotResponse = true
	status := c.status
	if status == 0 {
		status = 200
	}
	return &http.Response{StatusCode: status, Status: strconv.Itoa(status), Proto: "HTTP/1.1", ProtoMajor: 1, ProtoMinor: 1,
		Header: c.respHeader.Clone(), Body: &e2eBody{c}, Request: req}, nil
}

func (b *e2eBody) Close() error {
	c := b.c
	if !c.bodyClosed {
		c.bodyClosed = true
		c.srvCancel() // the server notices that the client went away
		c.w.sim.Logf("body", "conn%d closed by the client", c.id)
	}
	return nil
}

func (b *e2eBody) Read(p []byte) (int, error) {
	c := b.c
	w := c.w
	w.sim.YieldHere("body.Read")
	limit := func() int {
		if c.cut && c.cutLimit < len(c.delivered) {
			return c.cutLimit
		}
		return len(c.delivered)
	}
	if c.readPos >= limit() {
		w.sim.WaitFor("body.Read waits for data", func() bool {
			return c.readPos < limit() || c.cut || c.handlerDone || c.clientCtx.Err() != nil
		})
	}
	avail := limit() - c.readPos
	switch {
	case c.clientCtx.Err() != nil:
		return 0, c.clientCtx.Err()
	case avail > 0:
		n := avail
		switch w.ch.Weighted([]int{4, 3, 3}, "chunk class") {
		case 1:
			n = 1
		case 2:
			n = w.ch.Range(1, 24, "chunk")
		}
		if n > avail {
			n = avail
		}
		if n > len(p) {
			n = len(p)
		}
		copy(p, c.delivered[c.readPos:c.readPos+n])
		c.readPos += n
		return n, nil
	case c.cut:
		return 0, c.cutErr
	case c.handlerDone:
		return 0, io.EOF
	}
	return 0, io.EOF
}

// ---------------------------------------------------------------- world

type e2eMsg struct {
	tag    string
	id     string
	typ    string
	data   string // expected event data (LF-joined lines)
	hasTyp bool
	topics []string
	msg    *sse.Message
	err    error
	done   bool
}

type recReplayer struct {
	w     *e2eWorld
	inner sse.Replayer
	puts  []*e2ePut
}

type e2ePut struct {
	at     time.Duration // simulated instant of the Put
	msg    *e2eMsg
	id     string
	topics []string
}

func (r *recReplayer) Put(m *sse.Message, topics []string) (*sse.Message, error) {
	if head, count, size, ok := ringState(r.inner); ok && size > 0 {
		kind := "ValidReplayer"
		if r.w.finite {
			kind = "FiniteReplayer"
		}
		if head != 0 {
			r.w.o.probe("reach: Put on a " + kind + " whose ring's head is not at index 0")
		}
		if head != 0 && count == size {
			r.w.o.probe("reach: Put on a full " + kind + " ring whose head is not at index 0")
		}
	}
	head0, _, size0, ok0 := ringState(r.inner)
	out, err := r.inner.Put(m, topics)
	if _, _, size1, ok1 := ringState(r.inner); ok0 && ok1 && size1 > size0 && head0 != 0 {
		r.w.o.probe("reach: a Put grew the ring while its head was not at index 0")
		r.w.grewWrapped = len(r.puts) + 1
	}
	if err == nil {
		em := r.w.byMsg[m]
		r.puts = append(r.puts, &e2ePut{msg: em, id: out.ID.String(), topics: topics, at: r.w.sim.Elapsed()})
		r.w.sim.Logf("Put", "P[%d]=%s id=%q topics=%s", len(r.puts)-1, em.tag, out.ID.String(), fmtTopics(topics))
	}
	return out, err
}

// Replay also decides whether the property's premise holds for this resumption: the event the
// client resumes from must still be held (not expired, not evicted) when Joe asks for the replay.
func (r *recReplayer) Replay(sub sse.Subscription) error {
	w := r.w
	if w.grewWrapped > 0 && sub.LastEventID.IsSet() {
		w.o.probe("reach: a replay was asked for after the ring had grown while wrapped")
	}
	if sess, ok := sub.Client.(*sse.Session); ok && sub.LastEventID.IsSet() {
		i, _ := strconv.Atoi(sess.Req.Header.Get("X-Sim-Client"))
		cl := w.clients[i]
		for k, p := range r.puts {
			if p.id != sub.LastEventID.String() {
				continue
			}
			switch {
			case w.ttl > 0 && p.at+w.ttl <= w.sim.Elapsed()+time.Minute:
				cl.excluded = true
				w.o.probe("excluded: the event to resume from had expired before the reconnection")
			case w.capacity > 0 && len(r.puts)-k > w.capacity:
				cl.excluded = true
				w.o.probe("excluded: the event to resume from had been evicted before the reconnection")
			}
		}
	}
	return r.inner.Replay(sub)
}

type e2eWorld struct {
	rc  *RunCtx
	o   *Outcome
	ch  *Chooser
	sim *verifhook.Sim

	server      *sse.Server
	joe         *sse.Joe
	rep         *recReplayer
	auto        bool
	finite      bool
	grewWrapped int           // reach probe: number of puts when the ring grew while wrapped (0: never)
	ttl         time.Duration // ValidReplayer with a TTL that events outlive during the run (0: none expires)
	capacity    int           // FiniteReplayer with a capacity the run's publishes exceed (0: never evicts)

	clients []*e2eClient

	msgs     []*e2eMsg
	byMsg    map[*sse.Message]*e2eMsg
	pubs     [][]*e2eMsg
	pubsDone int
	conns    []*simConn

	cuts       int
	cutterDone bool
	faultsOver bool
}

// e2eClient is one real Client/Connection with its own session topics.
type e2eClient struct {
	w          *e2eWorld
	id         int
	ctx        context.Context
	cancel     context.CancelFunc
	conn       *sse.Connection
	sessTopics []string
	conns      []*simConn
	received   []RefEvent
	connectErr error
	connectRet bool
	caughtUp   bool
	rejected   bool
	// excluded: the event the client wanted to resume from had expired when it reconnected, so the
	// replayer was not "large enough to hold what is published while a client is away"
	excluded bool
}

func normalizeData(parts []string) (string, bool) {
	// every CR, LF or CRLF is one line break; a trailing break adds no line; the lines are LF-joined
	var lines []string
	for _, s := range parts {
		for s != "" {
			i := strings.IndexAny(s, "\r\n")
			if i < 0 {
				lines = append(lines, s)
				break
			}
			lines = append(lines, s[:i])
			if s[i] == '\r' && i+1 < len(s) && s[i+1] == '\n' {
				i++
			}
			s = s[i+1:]
		}
	}
	return strings.Join(lines, "\n"), len(lines) > 0
}

var e2eData = []string{"x", "hello world", " leading", "trailing ", "a:b", ":colon first", "id: injected", "data: nested", "event: y", "retry: 10", "multi\nline", "cr\rline", "crlf\r\nline", "ends\n", "\n", "\n\nblank first", "é€", "\xEF\xBB\xBFbom", "tab\there", "\x00nul", ""}
var e2eTypes = []string{"", "a", "message", " spaced ", "x:y", ":", "é", "data"}

func (w *e2eWorld) generate() {
	ch := w.ch
	w.auto = ch.Chance(1, 2, "auto ids")
	w.finite = ch.Chance(1, 2, "finite replayer")
	w.byMsg = map[*sse.Message]*e2eMsg{}
	var inner sse.Replayer
	if w.finite {
		capacity := 64 // large enough for everything published while the client is away
		if ch.Chance(1, 3, "small finite replayer") {
			// the ring wraps during the run; a client whose resume point was evicted is outside the property
			w.capacity = []int{4, 6, 8}[ch.Intn(3, "capacity")]
			capacity = w.capacity
		}
		fr, err := sse.NewFiniteReplayer(capacity, w.auto)
		if err != nil {
			panic(err)
		}
		inner = fr
	} else {
		ttl := 10000 * time.Hour
		if ch.Chance(1, 3, "events expire during the run") {
			// simulated hours pass between some publishes: old events expire and are collected (the
			// buffer's head moves, it shrinks and grows again) while everything a client still needs stays
			w.ttl = time.Hour
			ttl = w.ttl
		}
		vr, err := sse.NewValidReplayer(ttl, w.auto)
		if err != nil {
			panic(err)
		}
		inner = vr
	}
	w.rep = &recReplayer{w: w, inner: inner}
	w.joe = &sse.Joe{Replayer: w.rep}
	nClients := 1 + ch.Weighted([]int{3, 2}, "extra clients")
	for i := 0; i < nClients; i++ {
		cl := &e2eClient{w: w, id: i}
		if ch.Chance(1, 2, "session topics") {
			cl.sessTopics = genTopics(ch, "session")
		}
		w.clients = append(w.clients, cl)
	}
	w.server = &sse.Server{Provider: w.joe}
	w.server.OnSession = func(rw http.ResponseWriter, r *http.Request) ([]string, bool) {
		i, _ := strconv.Atoi(r.Header.Get("X-Sim-Client"))
		return w.clients[i].sessTopics, true
	}
	if ch.Chance(1, 4, "server logger") {
		lg := slog.New(slog.NewTextHandler(io.Discard, nil))
		w.server.Logger = func(*http.Request) *slog.Logger { return lg }
	}
	nPubs := ch.Range(1, 3, "publishers")
	budget, perPub := 12, 6
	if w.ttl > 0 || w.capacity > 0 {
		budget, perPub = 18, 12 // enough for the buffer to wrap, be collected, shrink and grow again
	}
	seq := 0
	for p := 0; p < nPubs; p++ {
		var list []*e2eMsg
		for n := 0; n < perPub && budget > 0 && ch.Chance(4, 5, "more messages"); n++ {
			seq++
			budget--
			em := &e2eMsg{tag: "m" + strconv.Itoa(seq)}
			m := &sse.Message{}
			var parts []string
			// the unique tag is always the first data line so that events are attributable
			parts = append(parts, em.tag)
			for k := 0; k < 2 && ch.Chance(1, 2, "more data"); k++ {
				parts = append(parts, e2eData[ch.Intn(len(e2eData), "data")])
			}
			if ch.Chance(1, 6, "large payload") {
				// large enough to make the client's scanner grow and compact its buffer
				sz := []int{1500, 3000, 5000, 9000}[ch.Intn(4, "payload size")]
				parts = append(parts, strings.Repeat(string(rune('a'+seq%26)), sz))
				w.o.probe("large payload (buffer compaction on the client)")
			}
			for _, part := range parts {
				m.AppendData(part)
				if ch.Chance(1, 6, "comment") {
					m.AppendComment("note\nabout " + em.tag)
				}
			}
			em.data, _ = normalizeData(parts)
			if ch.Chance(1, 2, "typed") {
				t := e2eTypes[ch.Intn(len(e2eTypes), "type")]
				m.Type = sse.Type(t)
				em.typ, em.hasTyp = t, true
			}
			if !w.auto {
				// also what base64 cursors and URL-ish IDs look like: an ID is an opaque string that comes back verbatim
				ids := []string{em.tag, "id " + em.tag, "é" + em.tag, em.tag + ":x", "0" + em.tag, "++" + em.tag + "=", em.tag + "%41", "%zz" + em.tag, em.tag + "/a+b"}
				em.id = ids[ch.Intn(len(ids), "id form")]
				m.ID = sse.ID(em.id)
			}
			if ch.Chance(1, 5, "retry") {
				m.Retry = []time.Duration{time.Millisecond, 20 * time.Millisecond, 3 * time.Second, 500 * time.Microsecond}[ch.Intn(4, "retry value")]
			}
			if ch.Chance(2, 3, "default topic") {
				em.topics = nil // Server.Publish adds DefaultTopic
			} else {
				em.topics = genTopics(ch, "msg")
			}
			em.msg = m
			w.byMsg[m] = em
			w.msgs = append(w.msgs, em)
			list = append(list, em)
		}
		w.pubs = append(w.pubs, list)
	}
}

func (cl *e2eClient) matches(topics []string) bool {
	st := cl.sessTopics
	if len(st) == 0 {
		st = []string{sse.DefaultTopic}
	}
	return topicsIntersect(st, topics)
}

// expected is P restricted to the client's session topics.
func (cl *e2eClient) expected() []*e2ePut {
	var out []*e2ePut
	for _, p := range cl.w.rep.puts {
		if cl.matches(p.topics) {
			out = append(out, p)
		}
	}
	return out
}

func (cl *e2eClient) activeConn() *simConn {
	if n := len(cl.conns); n > 0 {
		c := cl.conns[n-1]
		if !c.cut && !c.handlerDone && !c.bodyClosed {
			return c
		}
	}
	return nil
}

// activeConn returns an active connection of some client (the one the chooser picks).
func (w *e2eWorld) activeConns() []*simConn {
	var out []*simConn
	for _, cl := range w.clients {
		if c := cl.activeConn(); c != nil {
			out = append(out, c)
		}
	}
	return out
}

func (w *e2eWorld) totalReceived() int {
	n := 0
	for _, cl := range w.clients {
		n += len(cl.received)
	}
	return n
}

func (w *e2eWorld) build() {
	sim := w.sim
	ch := w.ch
	b := sse.Backoff{
		InitialInterval: []time.Duration{time.Millisecond, 100 * time.Millisecond, 5 * time.Second}[ch.Intn(3, "initial interval")],
		MaxInterval:     []time.Duration{0, time.Second, time.Minute}[ch.Intn(3, "max interval")],
	}
	if ch.Chance(1, 2, "no jitter") {
		b.Jitter = -1
	}
	if w.ttl > 0 && ch.Chance(1, 2, "long reconnection time") {
		// a client that stays away for a good part of the TTL: publishes, collections and buffer
		// growth happen while it is away (its resume point may expire: then it is outside the property)
		b.InitialInterval = []time.Duration{10 * time.Minute, 30 * time.Minute}[ch.Intn(2, "long initial interval")]
		b.MaxInterval = b.InitialInterval
	}
	// the application may drive reconnection itself: no built-in retries, Connect called again on
	// the same Connection whenever it returns
	appLoop := ch.Chance(1, 3, "application-driven reconnection")
	if appLoop {
		b.MaxRetries = -1
	}
	for _, cl := range w.clients {
		cl := cl
		client := &sse.Client{HTTPClient: &http.Client{Transport: &e2eRT{w, cl}}, Backoff: b}
		cl.ctx, cl.cancel = context.WithCancel(context.Background())
		context.AfterFunc(cl.ctx, sim.Poke)
		req, _ := http.NewRequestWithContext(cl.ctx, http.MethodGet, "http://sim.invalid/events", nil)
		cl.conn = client.NewConnection(req)
		cl.conn.SubscribeToAll(func(e sse.Event) {
			cl.received = append(cl.received, RefEvent{ID: e.LastEventID, Type: e.Type, Data: e.Data})
			sim.Logf("event", "client%d #%d {id=%q type=%q data=%q}", cl.id, len(cl.received), e.LastEventID, e.Type, e.Data)
			cl.checkSafety()
		})
		sim.Spawn(fmt.Sprintf("connect%d", cl.id), func() {
			for calls := 1; ; calls++ {
				cl.connectErr = cl.conn.Connect()
				sim.Logf("Connect", "client%d call %d returned %v", cl.id, calls, cl.connectErr)
				var ce *sse.ConnectionError
				if !appLoop || cl.ctx.Err() != nil || calls >= 40 || (errors.As(cl.connectErr, &ce) && ce.Reason == "response validation failed") {
					break
				}
				w.o.probe("Connect called again on the same Connection")
				if ch.Chance(1, 2, "application waits before reconnecting") {
					sim.Sleep("application back-off", []time.Duration{time.Millisecond, time.Second}[ch.Intn(2, "application wait")])
				}
			}
			cl.connectRet = true
		})
	}
	for i, list := range w.pubs {
		i, list := i, list
		wait := []int{1, 0, 2, 3}[ch.Weighted([]int{5, 1, 2, 1}, "publisher waits for connections")]
		sim.Spawn(fmt.Sprintf("pub%d", i), func() {
			if wait > 0 {
				sim.WaitWeak("publisher waits", func() bool { return len(w.conns) >= wait })
			}
			for _, em := range list {
				gap := ch.Range(0, 3, "publish gap")
				if gap > 0 {
					target := w.totalReceived() + gap - 1
					sim.WaitWeak("publisher paces", func() bool { return w.totalReceived() >= target })
				}
				if w.ttl > 0 && ch.Chance(1, 3, "time passes before the publish") {
					sim.Sleep("time passes", []time.Duration{20 * time.Minute, 45 * time.Minute, 20 * time.Minute, 45 * time.Minute, 90 * time.Minute}[ch.Intn(5, "hours")])
					w.o.probe("simulated time passes between publishes (events expire)")
				}
				sim.Logf("Publish", "%s id=%q type=%q data=%q topics=%s", em.tag, em.id, em.typ, em.data, fmtTopics(em.topics))
				em.err = w.server.Publish(em.msg, em.topics...)
				em.done = true
				sim.Logf("Publish", "%s returned %v", em.tag, em.err)
			}
			w.pubsDone++
		})
	}
	nCuts := ch.Weighted([]int{1, 3, 3, 2, 1}, "cuts")
	sim.Spawn("cutter", func() {
		for i := 0; i < nCuts; i++ {
			k := ch.Range(0, 4, "cut after events")
			base := w.totalReceived()
			pick := func(ok func(c *simConn) bool) *simConn {
				var cands []*simConn
				for _, c := range w.activeConns() {
					if ok(c) {
						cands = append(cands, c)
					}
				}
				if len(cands) == 0 {
					return nil
				}
				return cands[0]
			}
			var want func(c *simConn) bool
			switch ch.Weighted([]int{3, 3, 1}, "cut trigger") {
			case 0: // after k more events, on a connection that has sent something
				want = func(c *simConn) bool { return c.sentAny && w.totalReceived() >= base+k }
				sim.WaitWeakRank("cutter waits for events", 1, func() bool { return pick(want) != nil })
			case 1: // while flushed bytes are still unread by the client: the cut can fall inside an event
				want = func(c *simConn) bool { return c.readPos < len(c.delivered) }
				sim.WaitWeakRank("cutter waits for bytes in flight", 1, func() bool { return pick(want) != nil })
			case 2: // any time there is a connection, also before its headers
				want = func(c *simConn) bool { return true }
				sim.WaitWeakRank("cutter waits for a connection", 1, func() bool { return pick(want) != nil })
			}
			var cands []*simConn
			for _, c := range w.activeConns() {
				if want(c) {
					cands = append(cands, c)
				}
			}
			if len(cands) == 0 {
				cands = w.activeConns()
			}
			if len(cands) == 0 {
				continue
			}
			c := cands[ch.Intn(len(cands), "which connection")]
			w.doCut(c)
			sim.YieldHere("cutter")
		}
		w.cutterDone = true
	})
	sim.Spawn("closer", func() {
		sim.WaitFor("closer waits for publishers and cutter", func() bool { return w.pubsDone == len(w.pubs) && w.cutterDone })
		// one last cut after everything was published: the reconnection meets the replayer in its final
		// state (wrapped, collected, shrunk, grown) and must get exactly what the client still misses
		for _, cl := range w.clients {
			if c := cl.activeConn(); c != nil && len(cl.received) > 0 && ch.Chance(1, 3, "last cut after all publishes") {
				w.doCut(c)
				w.o.probe("cut after all publishes")
				sim.YieldHere("closer")
			}
		}
		w.faultsOver = true
		sim.Log("closer", "faults stopped, all publishes returned")
		// bounded liveness: once faults stop every client catches up
		for _, cl := range w.clients {
			cl := cl
			sim.WaitFor("closer waits for the client to catch up", func() bool { return cl.isCaughtUp() || cl.connectRet })
			// let a client whose last connection was cut reconnect once more and let the
			// system settle: a fully caught-up client must get nothing again
			if len(cl.received) > 0 && !cl.connectRet {
				sim.WaitFor("closer waits for the client to be connected", func() bool { return cl.activeConn() != nil || cl.connectRet })
				sim.WaitWeakRank("closer lets the system settle", 9, func() bool { return cl.connectRet })
				if n := len(cl.conns); n > 1 && cl.conns[n-1].eventsBefore == len(cl.received) {
					w.o.probe("reconnect while caught up (newest ID presented)")
				}
			}
			cl.caughtUp = cl.isCaughtUp()
			sim.Logf("closer", "client%d caught up: %v", cl.id, cl.caughtUp)
		}
		for _, cl := range w.clients {
			cl.cancel()
		}
		sim.WaitFor("closer waits for Connect", func() bool {
			for _, cl := range w.clients {
				if !cl.connectRet {
					return false
				}
			}
			return true
		})
		_ = w.server.Shutdown(context.Background())
	})
}

// isCaughtUp: the client has received everything expected from its first event on.
func (cl *e2eClient) isCaughtUp() bool {
	exp := cl.expected()
	if len(cl.received) == 0 || cl.excluded {
		return true // before its first event a client has nothing to resume from: outside the property
	}
	f := cl.indexOfFirst(exp)
	return f >= 0 && len(cl.received) == len(exp)-f
}

func (cl *e2eClient) indexOfFirst(exp []*e2ePut) int {
	first := cl.received[0]
	for i, p := range exp {
		if eventTag(first) == p.msg.tag {
			return i
		}
	}
	return -1
}

func eventTag(e RefEvent) string {
	if i := strings.IndexByte(e.Data, '\n'); i >= 0 {
		return e.Data[:i]
	}
	return e.Data
}

// checkSafety runs after every callback: O = P[f .. f+|O|).
func (cl *e2eClient) checkSafety() {
	w := cl.w
	if len(w.o.Violations) > 0 || cl.excluded {
		return
	}
	exp := cl.expected()
	f := cl.indexOfFirst(exp)
	if f < 0 {
		w.o.violate("C05", "unknown-event", "client%d received %s, which matches no published message of its topics", cl.id, describeEvents(cl.received[:1]))
		return
	}
	i := len(cl.received) - 1
	got := cl.received[i]
	if f+i >= len(exp) {
		w.o.violate("C05", "extra-event", "client%d event #%d %s: only %d matching messages were published from the client's first event on; received so far %s", cl.id, i+1, describeEventsShort([]RefEvent{got}), len(exp)-f, cl.tagsReceived())
		return
	}
	p := exp[f+i]
	want := RefEvent{ID: p.id, Type: p.msg.typ, Data: p.msg.data}
	if got != want {
		clause := "sequence"
		if eventTag(got) == p.msg.tag {
			clause = "content"
		}
		w.o.violate("C05", clause, "client%d event #%d on its connection %d is %s, want %s (published sequence from the first received event: %s; received: %s)",
			cl.id, i+1, len(cl.conns), describeEventsShort([]RefEvent{got}), describeEventsShort([]RefEvent{want}), w.tagsExpected(exp[f:]), cl.tagsReceived())
	}
}

func (cl *e2eClient) tagsReceived() string {
	t := make([]string, len(cl.received))
	for i, e := range cl.received {
		t[i] = eventTag(e)
	}
	return "[" + strings.Join(t, " ") + "]"
}

func (w *e2eWorld) tagsExpected(ps []*e2ePut) string {
	t := make([]string, len(ps))
	for i, p := range ps {
		t[i] = p.msg.tag
	}
	return "[" + strings.Join(t, " ") + "]"
}

func (w *e2eWorld) doCut(c *simConn) {
	ch := w.ch
	w.cuts++
	kind := ch.Weighted([]int{3, 2}, "cut kind")
	if kind == 1 && c.sentAny {
		// the handler ends after it has started the stream (server-side cancel)
		w.o.fault("handler ends after the stream started (server-side cancel)")
		w.sim.Logf("cut", "conn%d: server-side cancel, handler will end", c.id)
		c.srvCancel()
		return
	}
	// abrupt cut: the client may still read up to a chosen offset of what was flushed
	lo := c.readPos
	c.cut = true
	c.cutLimit = ch.Range(lo, len(c.delivered), "cut offset")
	switch ch.Weighted([]int{3, 3, 1, 1}, "cut error kind") {
	case 0:
		c.cutErr = newInjected(fmt.Sprintf("conn%d reset by peer", c.id))
	case 1:
		c.cutErr = io.ErrUnexpectedEOF
	case 2:
		// what http.Client.Timeout / ResponseHeaderTimeout report while the caller's context is alive
		c.cutErr = &timeoutLikeError{what: fmt.Sprintf("conn%d", c.id)}
	case 3:
		c.cutErr = newInjectedAs(fmt.Sprintf("conn%d cut", c.id), disguises[ch.Intn(len(disguises), "cut error sentinel")])
	}
	where := "between events"
	if c.cutLimit < len(c.delivered) {
		ref := RefInterpret(c.delivered[:c.cutLimit], "", true)
		if ref.TailSpan > 0 {
			where = "inside an event"
		}
	}
	if !c.headersSent {
		where = "before the response headers"
	}
	w.o.fault("abrupt cut " + where)
	w.sim.Logf("cut", "conn%d: abrupt, client can read %d of %d flushed bytes, then %v; server context mode %d", c.id, c.cutLimit, len(c.delivered), c.cutErr, c.cancelMode)
	switch c.cancelMode {
	case 0:
		c.srvCancel()
	case 2:
		w.sim.SpawnDaemon(fmt.Sprintf("latecancel%d", c.id), func() {
			w.sim.YieldHere("late cancel")
			w.sim.YieldHere("late cancel")
			c.srvCancel()
		})
	}
}

func runE2EWorld(rc *RunCtx) *Outcome {
	o := newOutcome()
	var w *e2eWorld
	var res verifhook.Result
	bubblePanic := ""
	func() {
		defer func() {
			if p := recover(); p != nil {
				bubblePanic = fmt.Sprint(p)
			}
		}()
		synctest.Test(rc.T, func(t *testing.T) {
			w = &e2eWorld{rc: rc, o: o, ch: rc.Ch}
			time.Sleep(time.Duration(rc.Ch.Intn(1_000_000, "clock offset")) * time.Microsecond)
			cfg := verifhook.Config{MaxSteps: 30000, Horizon: 1000 * time.Hour, KeepLog: rc.KeepLog, TickBeforeWaive: []int{0, 2, 4}[rc.Ch.Intn(3, "time before waived waits")]}
			cfg.Sticky = []int{0, 2, 6}[rc.Ch.Intn(3, "scheduler stickiness")]
			if rc.Ch.Chance(1, 4, "priority scheduling") {
				cfg.PCT = 1 + rc.Ch.Intn(3, "pct depth")
				o.probe("priority (PCT) scheduling")
			}
			w.generate()
			w.sim = verifhook.New(rc.Ch, cfg)
			w.sim.SetRanker(func(key, value any) (int64, bool) {
				if sub, ok := value.(sse.Subscription); ok {
					if sess, ok := sub.Client.(*sse.Session); ok && sess.Req != nil {
						if id, ok := sess.Req.Context().Value(connKey{}).(int); ok {
							return int64(id), true
						}
					}
				}
				return 0, false
			})
			verifhook.Install(w.sim)
			defer verifhook.Install(nil)
			w.build()
			res = w.sim.Run()
			w.sim.Abort()
		})
	}()
	if w == nil || w.sim == nil {
		o.Inconclusive = true
		o.probe("harness: world not built: " + bubblePanic)
		return o
	}
	o.Steps = res.Steps
	o.SimTime = res.SimTime
	o.LogHash = res.Hash
	o.Sched = res.SchedHash
	if rc.KeepLog {
		o.Log = append(o.Log, w.describe()...)
		for _, e := range w.sim.Events() {
			o.Log = append(o.Log, e.String())
		}
	}
	w.evaluate(res)
	h := newHasher()
	h.u64(res.SchedHash)
	h.str(strings.Join(w.describe(), "|"))
	o.Key = uint64(h)
	o.Nontrivial = w.totalReceived() >= 1 && len(w.conns) >= 1
	o.Sample = map[string]any{"scenario": w.describe(), "clients": len(w.clients), "connections": len(w.conns), "cuts": w.cuts, "events_received": w.totalReceived(), "published": len(w.rep.puts), "steps": res.Steps}
	sh := newHasher()
	sh.int(len(w.conns))
	sh.int(w.cuts)
	sh.int(w.totalReceived())
	sh.int(len(w.clients))
	sh.int(len(w.rep.puts))
	o.States = append(o.States, uint64(sh))
	return o
}

func (w *e2eWorld) describe() []string {
	out := []string{fmt.Sprintf("replayer finite=%v autoIDs=%v ttl=%v capacity=%d", w.finite, w.auto, w.ttl, w.capacity)}
	for _, cl := range w.clients {
		out = append(out, fmt.Sprintf("client%d sessionTopics=%s", cl.id, fmtTopics(cl.sessTopics)))
	}
	for i, list := range w.pubs {
		var ms []string
		for _, m := range list {
			d := m.data
			if len(d) > 48 {
				d = fmt.Sprintf("%s…(%d bytes)", d[:48], len(d))
			}
			ms = append(ms, fmt.Sprintf("%s(id=%q type=%q data=%q topics=%s)", m.tag, m.id, m.typ, d, fmtTopics(m.topics)))
		}
		out = append(out, fmt.Sprintf("pub%d: %s", i, strings.Join(ms, " ")))
	}
	return out
}

func (w *e2eWorld) evaluate(res verifhook.Result) {
	o := w.o
	for _, t := range res.Panicked {
		clause := "panic"
		if t.Internal || strings.HasPrefix(t.Name, "handler") {
			clause = "server-crash"
		}
		o.violate("C05", clause, "task %s panicked: %s", t.Name, t.PanicInfo)
		if t.Internal {
			o.violate("C06", "panic-in-provider", "task %s panicked: %s", t.Name, t.PanicInfo)
		}
	}
	if len(res.Panicked) > 0 || len(o.Violations) > 0 {
		return
	}
	for _, r := range w.sim.Races() {
		o.probe("lockset report: " + r.Site)
		o.violate("C13", "data-race-e2e", "lockset violation: %s", r.String())
	}
	if res.CapHit {
		o.Inconclusive = true
		return
	}
	// excluded by the property: a session that ended before anything was sent yields an empty 200 the validator rejects
	anyRejected, anyExcluded := false, false
	for _, cl := range w.clients {
		anyExcluded = anyExcluded || cl.excluded
	}
	for _, cl := range w.clients {
		var ce *sse.ConnectionError
		cl.rejected = errors.As(cl.connectErr, &ce) && ce.Reason == "response validation failed"
		if cl.rejected {
			anyRejected = true
			o.probe("excluded: empty 200 rejected by the validator")
		}
		if len(cl.received) == 0 {
			o.probe("client never received an event")
		}
	}
	if len(res.Unfinish) > 0 {
		var names []string
		for _, t := range res.Unfinish {
			names = append(names, t.Name+"@"+t.Site())
		}
		if w.faultsOver && !anyRejected && !anyExcluded {
			var state []string
			for _, cl := range w.clients {
				state = append(state, fmt.Sprintf("client%d at %s of %s", cl.id, cl.tagsReceived(), w.tagsExpected(cl.expected())))
			}
			o.violate("C05", "never-caught-up", "faults stopped and all publishes returned, but the system went idle with %s; blocked: %s", strings.Join(state, ", "), strings.Join(names, ", "))
		} else {
			o.Inconclusive = true
		}
		return
	}
	for _, cl := range w.clients {
		if !cl.rejected && !cl.excluded && w.faultsOver && !cl.caughtUp {
			o.violate("C05", "never-caught-up", "client%d: Connect returned %v before the client had caught up: received %s of %s", cl.id, cl.connectErr, cl.tagsReceived(), w.tagsExpected(cl.expected()))
		}
	}
	// probes
	for _, cl := range w.clients {
		for i, c := range cl.conns {
			if i > 0 && len(c.reqHeader.Values("Last-Event-ID")) == 1 {
				o.probe("reconnect carrying Last-Event-ID")
			}
			if c.writeErrs > 0 {
				o.probe("server write failed on a cut connection")
			}
		}
		if len(cl.conns) >= 3 {
			o.probe("three or more connections of one client")
		}
		if cl.caughtUp && len(cl.received) >= 2 && w.cuts > 0 {
			o.probe("caught up after at least one cut")
		}
	}
	if len(w.clients) > 1 && w.totalReceived() > 0 {
		o.probe("two clients")
	}
}

func init() {
	register(&World{
		Name: "e2e", Level: "exploration",
		Rule: "each evaluation draws a replayer (Finite with capacity 64 or, in a third of its runs, 4-8 so that it wraps; Valid with a huge TTL or, in a third of its runs, a TTL of one hour with simulated time passing between publishes so that events expire, are collected and the buffer shrinks and grows; manual or automatic IDs), one or two clients with their session topics, 1-3 publishers with up to 12 (18) messages (unique tag as first data line; adversarial further data, types, IDs, comments, retry), a client back-off (built-in retries, reconnection times up to 30 min, or the application calling Connect again itself), 0-4 cuts (abrupt at any byte offset of what was flushed, incl. before the headers and inside an event, surfacing as io.ErrUnexpectedEOF, an opaque error, a net/http-style timeout or a sentinel-matching error, with the server's failing writes accepting a part; or a server-side cancel that ends the handler after the stream started), possibly one more cut after the last publish, and the schedule. Whether the resume point of a reconnection is still held is decided inside the replayer wrapper when Joe asks for the replay; if not, that client is outside the property. " +
			"After every callback the received sequence must be the published sequence from the first received event on; once faults stop and all publishes returned the client must catch up before the system goes idle. Non-trivial: at least one event received; distinct = distinct (scenario, scheduling hash).",
		Real: []string{"sse.Server.ServeHTTP, Upgrade, Session (Send/Flush)", "sse.Joe + FiniteReplayer/ValidReplayer (instrumented copy)", "sse.Message encoding", "sse.Client/Connection/Connect, back-off on the fake clock", "event parser and interpreter", "net/http.Client"},
		Stub: []string{"simnet: RoundTripper + ResponseWriter/FlushError + Body with net/http's contract (headers at first flush or handler return, buffered writes, EOF at handler return, cut => read error on the client and failing writes + context cancellation on the server, Body.Close cancels the server request)", "scheduler: synctest bubble + generated yield points"},
		Assumptions: []string{
			"the replayer is large enough to hold everything published while the client is away (as the property requires): a client whose resume point had expired or been evicted when it reconnected is excluded",
			"IDs are unique, non-empty, header-safe and NUL-free; session topics are the same on every reconnect",
			"a client that never got a first event, or whose session ended with an empty 200 (rejected by the default validator), is outside the property",
			"HTTP/2, proxies and transparent retries of net/http are not modelled",
		},
		MustProbes: []string{"reconnect carrying Last-Event-ID", "caught up after at least one cut", "server write failed on a cut connection"},
		Run:        runE2EWorld,
	}, "C05")
}
