package sim

import (
	"context"
	"errors"
	"fmt"
	"io"
	"net/http"
	"strconv"
	"strings"
	"testing"
	"testing/synctest"
	"time"

	sse "github.com/tmaxmax/go-sse"
	"github.com/tmaxmax/go-sse/verifhook"
)

// E2E world (DESIGN.md 3, C05): real Server over real Joe over a real
// replayer, real Session and Message encoding, simnet, real Client /
// Connection / parser; publisher tasks; a cutter that cuts connections at any
// byte offset (abruptly, or by ending the handler after the stream started).
// Only net/http's plumbing is a stub.

type connKey struct{}

// simConn is one simulated HTTP exchange.
type simConn struct {
	w  *e2eWorld
	id int

	reqHeader http.Header
	clientCtx context.Context

	srvCtx    context.Context
	srvCancel context.CancelFunc

	// server side
	respHeader  http.Header
	status      int
	pending     []byte // written, not flushed
	wroteHeader bool
	handlerDone bool
	writeErrs   int

	// wire
	delivered   []byte // flushed bytes, visible to the client (body only)
	headersSent bool
	cut         bool
	cutLimit    int   // body bytes the client can still read after the cut
	cutErr      error // what the client's Read reports at the cut
	cancelMode  int   // when the server-side request context is cancelled after an abrupt cut: 0 at once, 1 at the failing write, 2 later

	// client side
	readPos      int
	bodyClosed   bool
	gotResponse  bool
	eventsBefore int // events the client had received when this connection started
	sentAny      bool
}

type simRW struct{ c *simConn }

func (rw *simRW) Header() http.Header { return rw.c.respHeader }

func (rw *simRW) WriteHeader(code int) {
	if !rw.c.wroteHeader {
		rw.c.wroteHeader = true
		rw.c.status = code
	}
}

func (rw *simRW) Write(p []byte) (int, error) {
	c := rw.c
	c.w.sim.YieldHere("rw.Write")
	if c.cut || c.bodyClosed {
		return 0, c.serverWriteFailed("write")
	}
	if !c.wroteHeader {
		rw.WriteHeader(200)
	}
	c.pending = append(c.pending, p...)
	return len(p), nil
}

// FlushError is what net/http's response writer offers since Go 1.20.
func (rw *simRW) FlushError() error {
	c := rw.c
	c.w.sim.YieldHere("rw.Flush")
	if c.cut || c.bodyClosed {
		return c.serverWriteFailed("flush")
	}
	if !c.wroteHeader {
		rw.WriteHeader(200)
	}
	c.flushToWire()
	return nil
}

func (rw *simRW) Flush() { _ = rw.FlushError() }

func (c *simConn) flushToWire() {
	c.headersSent = true
	if len(c.pending) > 0 {
		c.delivered = append(c.delivered, c.pending...)
		c.pending = c.pending[:0]
		c.sentAny = true
	}
}

func (c *simConn) serverWriteFailed(what string) error {
	c.writeErrs++
	c.w.o.fault("server-side " + what + " fails after the connection was cut")
	if c.cancelMode == 1 {
		c.srvCancel() // net/http cancels the request context when a write fails
	}
	return newInjected(fmt.Sprintf("conn%d %s on a cut connection", c.id, what))
}

// ---------------------------------------------------------------- client side of simnet

type e2eRT struct{ w *e2eWorld }

type e2eBody struct{ c *simConn }

func (rt *e2eRT) RoundTrip(req *http.Request) (*http.Response, error) {
	w := rt.w
	c := &simConn{w: w, id: len(w.conns) + 1, reqHeader: req.Header.Clone(), clientCtx: req.Context(), respHeader: http.Header{}, eventsBefore: len(w.received)}
	c.srvCtx, c.srvCancel = context.WithCancel(context.WithValue(context.Background(), connKey{}, c.id))
	c.cancelMode = w.ch.Weighted([]int{2, 3, 2}, "server context cancellation mode")
	w.conns = append(w.conns, c)
	w.sim.Logf("RoundTrip", "conn%d Last-Event-ID=%q", c.id, req.Header.Values("Last-Event-ID"))
	sreq, err := http.NewRequestWithContext(c.srvCtx, req.Method, "http://sim.invalid/events", nil)
	if err != nil {
		panic(err)
	}
	for k, v := range req.Header {
		sreq.Header[k] = append([]string(nil), v...)
	}
	w.sim.Spawn(fmt.Sprintf("handler%d", c.id), func() {
		w.server.ServeHTTP(&simRW{c}, sreq)
		// net/http flushes what is buffered when the handler returns
		if !c.cut && !c.bodyClosed {
			if !c.wroteHeader {
				c.wroteHeader, c.status = true, 200
			}
			c.flushToWire()
		}
		c.handlerDone = true
		w.sim.Logf("handler", "conn%d returned", c.id)
	})
	w.sim.WaitFor("RoundTrip waits for response headers", func() bool {
		return c.headersSent || c.handlerDone || c.cut || c.clientCtx.Err() != nil
	})
	switch {
	case c.clientCtx.Err() != nil:
		c.srvCancel()
		return nil, c.clientCtx.Err()
	case c.cut && !c.headersSent:
		w.o.probe("cut before the response headers")
		return nil, c.cutErr
	}
	c.gotResponse = true
	status := c.status
	if status == 0 {
		status = 200
	}
	return &http.Response{StatusCode: status, Status: strconv.Itoa(status), Proto: "HTTP/1.1", ProtoMajor: 1, ProtoMinor: 1,
		Header: c.respHeader.Clone(), Body: &e2eBody{c}, Request: req}, nil
}

func (b *e2eBody) Close() error {
	c := b.c
	if !c.bodyClosed {
		c.bodyClosed = true
		c.srvCancel() // the server notices that the client went away
		c.w.sim.Logf("body", "conn%d closed by the client", c.id)
	}
	return nil
}

func (b *e2eBody) Read(p []byte) (int, error) {
	c := b.c
	w := c.w
	w.sim.YieldHere("body.Read")
	limit := func() int {
		if c.cut && c.cutLimit < len(c.delivered) {
			return c.cutLimit
		}
		return len(c.delivered)
	}
	if c.readPos >= limit() {
		w.sim.WaitFor("body.Read waits for data", func() bool {
			return c.readPos < limit() || c.cut || c.handlerDone || c.clientCtx.Err() != nil
		})
	}
	avail := limit() - c.readPos
	switch {
	case c.clientCtx.Err() != nil:
		return 0, c.clientCtx.Err()
	case avail > 0:
		n := avail
		switch w.ch.Weighted([]int{4, 3, 3}, "chunk class") {
		case 1:
			n = 1
		case 2:
			n = w.ch.Range(1, 24, "chunk")
		}
		if n > avail {
			n = avail
		}
		if n > len(p) {
			n = len(p)
		}
		copy(p, c.delivered[c.readPos:c.readPos+n])
		c.readPos += n
		return n, nil
	case c.cut:
		return 0, c.cutErr
	case c.handlerDone:
		return 0, io.EOF
	}
	return 0, io.EOF
}

// ---------------------------------------------------------------- world

type e2eMsg struct {
	tag    string
	id     string
	typ    string
	data   string // expected event data (LF-joined lines)
	hasTyp bool
	topics []string
	msg    *sse.Message
	err    error
	done   bool
}

type recReplayer struct {
	w     *e2eWorld
	inner sse.Replayer
	puts  []*e2ePut
}

type e2ePut struct {
	msg    *e2eMsg
	id     string
	topics []string
}

func (r *recReplayer) Put(m *sse.Message, topics []string) (*sse.Message, error) {
	out, err := r.inner.Put(m, topics)
	if err == nil {
		em := r.w.byMsg[m]
		r.puts = append(r.puts, &e2ePut{msg: em, id: out.ID.String(), topics: topics})
		r.w.sim.Logf("Put", "P[%d]=%s id=%q topics=%s", len(r.puts)-1, em.tag, out.ID.String(), fmtTopics(topics))
	}
	return out, err
}

func (r *recReplayer) Replay(sub sse.Subscription) error { return r.inner.Replay(sub) }

type e2eWorld struct {
	rc  *RunCtx
	o   *Outcome
	ch  *Chooser
	sim *verifhook.Sim

	server *sse.Server
	joe    *sse.Joe
	rep    *recReplayer
	auto   bool
	finite bool

	clientCtx    context.Context
	clientCancel context.CancelFunc
	conn         *sse.Connection
	sessTopics   []string

	msgs     []*e2eMsg
	byMsg    map[*sse.Message]*e2eMsg
	pubs     [][]*e2eMsg
	pubsDone int
	conns    []*simConn
	received []RefEvent
	recvConn []int

	cuts       int
	cutterDone bool
	connectErr error
	connectRet bool
	caughtUp   bool
	excluded   string
	faultsOver bool
}

func normalizeData(parts []string) (string, bool) {
	// every CR, LF or CRLF is one line break; a trailing break adds no line; the lines are LF-joined
	var lines []string
	for _, s := range parts {
		for s != "" {
			i := strings.IndexAny(s, "\r\n")
			if i < 0 {
				lines = append(lines, s)
				break
			}
			lines = append(lines, s[:i])
			if s[i] == '\r' && i+1 < len(s) && s[i+1] == '\n' {
				i++
			}
			s = s[i+1:]
		}
	}
	return strings.Join(lines, "\n"), len(lines) > 0
}

var e2eData = []string{"x", "hello world", " leading", "trailing ", "a:b", ":colon first", "id: injected", "data: nested", "event: y", "retry: 10", "multi\nline", "cr\rline", "crlf\r\nline", "ends\n", "\n", "\n\nblank first", "é€", "\xEF\xBB\xBFbom", "tab\there", "\x00nul", ""}
var e2eTypes = []string{"", "a", "message", " spaced ", "x:y", ":", "é", "data"}

func (w *e2eWorld) generate() {
	ch := w.ch
	w.auto = ch.Chance(1, 2, "auto ids")
	w.finite = ch.Chance(1, 2, "finite replayer")
	w.byMsg = map[*sse.Message]*e2eMsg{}
	var inner sse.Replayer
	if w.finite {
		fr, err := sse.NewFiniteReplayer(64, w.auto) // large enough for everything published while the client is away
		if err != nil {
			panic(err)
		}
		inner = fr
	} else {
		vr, err := sse.NewValidReplayer(10000*time.Hour, w.auto)
		if err != nil {
			panic(err)
		}
		inner = vr
	}
	w.rep = &recReplayer{w: w, inner: inner}
	w.joe = &sse.Joe{Replayer: w.rep}
	w.sessTopics = nil
	if ch.Chance(1, 2, "session topics") {
		w.sessTopics = genTopics(ch, "session")
	}
	w.server = &sse.Server{Provider: w.joe}
	if w.sessTopics != nil {
		w.server.OnSession = func(rw http.ResponseWriter, r *http.Request) ([]string, bool) { return w.sessTopics, true }
	}
	nPubs := ch.Range(1, 3, "publishers")
	budget := 12
	seq := 0
	for p := 0; p < nPubs; p++ {
		var list []*e2eMsg
		for n := 0; n < 6 && budget > 0 && ch.Chance(4, 5, "more messages"); n++ {
			seq++
			budget--
			em := &e2eMsg{tag: "m" + strconv.Itoa(seq)}
			m := &sse.Message{}
			var parts []string
			// the unique tag is always the first data line so that events are attributable
			parts = append(parts, em.tag)
			for k := 0; k < 2 && ch.Chance(1, 2, "more data"); k++ {
				parts = append(parts, e2eData[ch.Intn(len(e2eData), "data")])
			}
			if ch.Chance(1, 6, "large payload") {
				// large enough to make the client's scanner grow and compact its buffer
				sz := []int{1500, 3000, 5000, 9000}[ch.Intn(4, "payload size")]
				parts = append(parts, strings.Repeat(string(rune('a'+seq%26)), sz))
				w.o.probe("large payload (buffer compaction on the client)")
			}
			for _, part := range parts {
				m.AppendData(part)
				if ch.Chance(1, 6, "comment") {
					m.AppendComment("note\nabout " + em.tag)
				}
			}
			em.data, _ = normalizeData(parts)
			if ch.Chance(1, 2, "typed") {
				t := e2eTypes[ch.Intn(len(e2eTypes), "type")]
				m.Type = sse.Type(t)
				em.typ, em.hasTyp = t, true
			}
			if !w.auto {
				ids := []string{em.tag, "id " + em.tag, "é" + em.tag, em.tag + ":x", "0" + em.tag}
				em.id = ids[ch.Intn(len(ids), "id form")]
				m.ID = sse.ID(em.id)
			}
			if ch.Chance(1, 5, "retry") {
				m.Retry = []time.Duration{time.Millisecond, 20 * time.Millisecond, 3 * time.Second, 500 * time.Microsecond}[ch.Intn(4, "retry value")]
			}
			if ch.Chance(2, 3, "default topic") {
				em.topics = nil // Server.Publish adds DefaultTopic
			} else {
				em.topics = genTopics(ch, "msg")
			}
			em.msg = m
			w.byMsg[m] = em
			w.msgs = append(w.msgs, em)
			list = append(list, em)
		}
		w.pubs = append(w.pubs, list)
	}
}

func (w *e2eWorld) matches(topics []string) bool {
	st := w.sessTopics
	if len(st) == 0 {
		st = []string{sse.DefaultTopic}
	}
	return topicsIntersect(st, topics)
}

// expected is P restricted to the session's topics.
func (w *e2eWorld) expected() []*e2ePut {
	var out []*e2ePut
	for _, p := range w.rep.puts {
		if w.matches(p.topics) {
			out = append(out, p)
		}
	}
	return out
}

func (w *e2eWorld) activeConn() *simConn {
	if n := len(w.conns); n > 0 {
		c := w.conns[n-1]
		if !c.cut && !c.handlerDone && !c.bodyClosed {
			return c
		}
	}
	return nil
}

func (w *e2eWorld) build() {
	sim := w.sim
	ch := w.ch
	b := sse.Backoff{
		InitialInterval: []time.Duration{time.Millisecond, 100 * time.Millisecond, 5 * time.Second}[ch.Intn(3, "initial interval")],
		MaxInterval:     []time.Duration{0, time.Second, time.Minute}[ch.Intn(3, "max interval")],
	}
	if ch.Chance(1, 2, "no jitter") {
		b.Jitter = -1
	}
	client := &sse.Client{HTTPClient: &http.Client{Transport: &e2eRT{w}}, Backoff: b}
	w.clientCtx, w.clientCancel = context.WithCancel(context.Background())
	context.AfterFunc(w.clientCtx, sim.Poke)
	req, _ := http.NewRequestWithContext(w.clientCtx, http.MethodGet, "http://sim.invalid/events", nil)
	w.conn = client.NewConnection(req)
	w.conn.SubscribeToAll(func(e sse.Event) {
		w.received = append(w.received, RefEvent{ID: e.LastEventID, Type: e.Type, Data: e.Data})
		w.recvConn = append(w.recvConn, len(w.conns))
		sim.Logf("event", "#%d {id=%q type=%q data=%q}", len(w.received), e.LastEventID, e.Type, e.Data)
		w.checkSafety()
	})
	sim.Spawn("connect", func() {
		w.connectErr = w.conn.Connect()
		w.connectRet = true
		sim.Logf("Connect", "returned %v", w.connectErr)
	})
	for i, list := range w.pubs {
		i, list := i, list
		wait := []int{1, 0, 2, 3}[ch.Weighted([]int{5, 1, 2, 1}, "publisher waits for connections")]
		sim.Spawn(fmt.Sprintf("pub%d", i), func() {
			if wait > 0 {
				sim.WaitWeak("publisher waits", func() bool { return len(w.conns) >= wait })
			}
			for _, em := range list {
				gap := ch.Range(0, 3, "publish gap")
				if gap > 0 {
					target := len(w.received) + gap - 1
					sim.WaitWeak("publisher paces", func() bool { return len(w.received) >= target })
				}
				sim.Logf("Publish", "%s id=%q type=%q data=%q topics=%s", em.tag, em.id, em.typ, em.data, fmtTopics(em.topics))
				em.err = w.server.Publish(em.msg, em.topics...)
				em.done = true
				sim.Logf("Publish", "%s returned %v", em.tag, em.err)
			}
			w.pubsDone++
		})
	}
	nCuts := ch.Weighted([]int{1, 3, 3, 2, 1}, "cuts")
	sim.Spawn("cutter", func() {
		for i := 0; i < nCuts; i++ {
			k := ch.Range(0, 4, "cut after events")
			base := len(w.received)
			switch ch.Weighted([]int{3, 3, 1}, "cut trigger") {
			case 0: // after k more events, on a connection that has sent something
				sim.WaitWeakRank("cutter waits for events", 1, func() bool {
					c := w.activeConn()
					return c != nil && c.sentAny && len(w.received) >= base+k
				})
			case 1: // while flushed bytes are still unread by the client: the cut can fall inside an event
				sim.WaitWeakRank("cutter waits for bytes in flight", 1, func() bool {
					c := w.activeConn()
					return c != nil && c.readPos < len(c.delivered)
				})
			case 2: // any time there is a connection, also before its headers
				sim.WaitWeakRank("cutter waits for a connection", 1, func() bool { return w.activeConn() != nil })
			}
			c := w.activeConn()
			if c == nil {
				continue
			}
			w.doCut(c)
			sim.YieldHere("cutter")
		}
		w.cutterDone = true
	})
	sim.Spawn("closer", func() {
		sim.WaitFor("closer waits for publishers and cutter", func() bool { return w.pubsDone == len(w.pubs) && w.cutterDone })
		w.faultsOver = true
		sim.Log("closer", "faults stopped, all publishes returned")
		// bounded liveness: once faults stop the client catches up
		sim.WaitFor("closer waits for the client to catch up", func() bool {
			return w.isCaughtUp() || w.connectRet
		})
		// let a client whose last connection was cut reconnect once more and let the
		// system settle: a fully caught-up client must get nothing again
		if len(w.received) > 0 && !w.connectRet {
			sim.WaitFor("closer waits for the client to be connected", func() bool { return w.activeConn() != nil || w.connectRet })
			sim.WaitWeakRank("closer lets the system settle", 9, func() bool { return w.connectRet })
			if len(w.conns) > 0 && w.conns[len(w.conns)-1].eventsBefore == len(w.received) && len(w.conns) > 1 {
				w.o.probe("reconnect while caught up (newest ID presented)")
			}
		}
		w.caughtUp = w.isCaughtUp()
		sim.Logf("closer", "caught up: %v", w.caughtUp)
		w.clientCancel()
		sim.WaitFor("closer waits for Connect", func() bool { return w.connectRet })
		_ = w.server.Shutdown(context.Background())
	})
}

// isCaughtUp: the client has received everything expected from its first event on.
func (w *e2eWorld) isCaughtUp() bool {
	exp := w.expected()
	if len(w.received) == 0 {
		return true // before its first event a client has nothing to resume from: outside the property
	}
	f := w.indexOfFirst(exp)
	return f >= 0 && len(w.received) == len(exp)-f
}

func (w *e2eWorld) indexOfFirst(exp []*e2ePut) int {
	first := w.received[0]
	for i, p := range exp {
		if eventTag(first) == p.msg.tag {
			return i
		}
	}
	return -1
}

func eventTag(e RefEvent) string {
	if i := strings.IndexByte(e.Data, '\n'); i >= 0 {
		return e.Data[:i]
	}
	return e.Data
}

// checkSafety runs after every callback: O = P[f .. f+|O|).
func (w *e2eWorld) checkSafety() {
	if len(w.o.Violations) > 0 {
		return
	}
	exp := w.expected()
	f := w.indexOfFirst(exp)
	if f < 0 {
		w.o.violate("C05", "unknown-event", "the client received %s, which matches no published message of its topics", describeEvents(w.received[:1]))
		return
	}
	i := len(w.received) - 1
	got := w.received[i]
	if f+i >= len(exp) {
		w.o.violate("C05", "extra-event", "event #%d %s: only %d matching messages were published from the client's first event on; received so far %s", i+1, describeEvents([]RefEvent{got}), len(exp)-f, w.tagsReceived())
		return
	}
	p := exp[f+i]
	want := RefEvent{ID: p.id, Type: p.msg.typ, Data: p.msg.data}
	if got != want {
		clause := "sequence"
		if eventTag(got) == p.msg.tag {
			clause = "content"
		}
		w.o.violate("C05", clause, "event #%d on connection %d is %s, want %s (published sequence from the first received event: %s; received: %s)",
			i+1, len(w.conns), describeEvents([]RefEvent{got}), describeEvents([]RefEvent{want}), w.tagsExpected(exp[f:]), w.tagsReceived())
	}
}

func (w *e2eWorld) tagsReceived() string {
	t := make([]string, len(w.received))
	for i, e := range w.received {
		t[i] = eventTag(e)
	}
	return "[" + strings.Join(t, " ") + "]"
}

func (w *e2eWorld) tagsExpected(ps []*e2ePut) string {
	t := make([]string, len(ps))
	for i, p := range ps {
		t[i] = p.msg.tag
	}
	return "[" + strings.Join(t, " ") + "]"
}

func (w *e2eWorld) doCut(c *simConn) {
	ch := w.ch
	w.cuts++
	kind := ch.Weighted([]int{3, 2}, "cut kind")
	if kind == 1 && c.sentAny {
		// the handler ends after it has started the stream (server-side cancel)
		w.o.fault("handler ends after the stream started (server-side cancel)")
		w.sim.Logf("cut", "conn%d: server-side cancel, handler will end", c.id)
		c.srvCancel()
		return
	}
	// abrupt cut: the client may still read up to a chosen offset of what was flushed
	lo := c.readPos
	c.cut = true
	c.cutLimit = ch.Range(lo, len(c.delivered), "cut offset")
	if ch.Chance(1, 2, "opaque error") {
		c.cutErr = newInjected(fmt.Sprintf("conn%d reset by peer", c.id))
	} else {
		c.cutErr = io.ErrUnexpectedEOF
	}
	where := "between events"
	if c.cutLimit < len(c.delivered) {
		ref := RefInterpret(c.delivered[:c.cutLimit], "", true)
		if ref.TailSpan > 0 {
			where = "inside an event"
		}
	}
	if !c.headersSent {
		where = "before the response headers"
	}
	w.o.fault("abrupt cut " + where)
	w.sim.Logf("cut", "conn%d: abrupt, client can read %d of %d flushed bytes, then %v; server context mode %d", c.id, c.cutLimit, len(c.delivered), c.cutErr, c.cancelMode)
	switch c.cancelMode {
	case 0:
		c.srvCancel()
	case 2:
		w.sim.SpawnDaemon(fmt.Sprintf("latecancel%d", c.id), func() {
			w.sim.YieldHere("late cancel")
			w.sim.YieldHere("late cancel")
			c.srvCancel()
		})
	}
}

func runE2EWorld(rc *RunCtx) *Outcome {
	o := newOutcome()
	var w *e2eWorld
	var res verifhook.Result
	bubblePanic := ""
	func() {
		defer func() {
			if p := recover(); p != nil {
				bubblePanic = fmt.Sprint(p)
			}
		}()
		synctest.Test(rc.T, func(t *testing.T) {
			w = &e2eWorld{rc: rc, o: o, ch: rc.Ch}
			time.Sleep(time.Duration(rc.Ch.Intn(1_000_000, "clock offset")) * time.Microsecond)
			cfg := verifhook.Config{MaxSteps: 30000, Horizon: 1000 * time.Hour, KeepLog: rc.KeepLog, TickBeforeWaive: []int{0, 2, 4}[rc.Ch.Intn(3, "time before waived waits")]}
			cfg.Sticky = []int{0, 2, 6}[rc.Ch.Intn(3, "scheduler stickiness")]
			w.generate()
			w.sim = verifhook.New(rc.Ch, cfg)
			w.sim.SetRanker(func(key, value any) (int64, bool) {
				if sub, ok := value.(sse.Subscription); ok {
					if sess, ok := sub.Client.(*sse.Session); ok && sess.Req != nil {
						if id, ok := sess.Req.Context().Value(connKey{}).(int); ok {
							return int64(id), true
						}
					}
				}
				return 0, false
			})
			verifhook.Install(w.sim)
			defer verifhook.Install(nil)
			w.build()
			res = w.sim.Run()
			w.sim.Abort()
		})
	}()
	if w == nil || w.sim == nil {
		o.Inconclusive = true
		o.probe("harness: world not built: " + bubblePanic)
		return o
	}
	o.Steps = res.Steps
	o.SimTime = res.SimTime
	o.LogHash = res.Hash
	if rc.KeepLog {
		o.Log = append(o.Log, w.describe()...)
		for _, e := range w.sim.Events() {
			o.Log = append(o.Log, e.String())
		}
	}
	w.evaluate(res)
	h := newHasher()
	h.u64(res.SchedHash)
	h.str(strings.Join(w.describe(), "|"))
	o.Key = uint64(h)
	o.Nontrivial = len(w.received) >= 1 && len(w.conns) >= 1
	o.Sample = map[string]any{"scenario": w.describe(), "connections": len(w.conns), "cuts": w.cuts, "events_received": len(w.received), "published": len(w.rep.puts), "steps": res.Steps}
	sh := newHasher()
	sh.int(len(w.conns))
	sh.int(w.cuts)
	sh.int(len(w.received))
	sh.int(len(w.rep.puts))
	o.States = append(o.States, uint64(sh))
	return o
}

func (w *e2eWorld) describe() []string {
	out := []string{fmt.Sprintf("replayer finite=%v autoIDs=%v sessionTopics=%s", w.finite, w.auto, fmtTopics(w.sessTopics))}
	for i, list := range w.pubs {
		var ms []string
		for _, m := range list {
			ms = append(ms, fmt.Sprintf("%s(id=%q type=%q data=%q topics=%s)", m.tag, m.id, m.typ, m.data, fmtTopics(m.topics)))
		}
		out = append(out, fmt.Sprintf("pub%d: %s", i, strings.Join(ms, " ")))
	}
	return out
}

func (w *e2eWorld) evaluate(res verifhook.Result) {
	o := w.o
	for _, t := range res.Panicked {
		clause := "panic"
		if t.Internal || strings.HasPrefix(t.Name, "handler") {
			clause = "server-crash"
		}
		o.violate("C05", clause, "task %s panicked: %s", t.Name, t.PanicInfo)
		if t.Internal {
			o.violate("C06", "panic-in-provider", "task %s panicked: %s", t.Name, t.PanicInfo)
		}
	}
	if len(res.Panicked) > 0 || len(o.Violations) > 0 {
		return
	}
	for _, r := range w.sim.Races() {
		o.probe("lockset report: " + r.Site)
		o.violate("C13", "data-race-e2e", "lockset violation: %s", r.String())
	}
	if res.CapHit {
		o.Inconclusive = true
		return
	}
	// excluded by the property: a session that ended before anything was sent yields an empty 200 the validator rejects
	var ce *sse.ConnectionError
	rejected := errors.As(w.connectErr, &ce) && ce.Reason == "response validation failed"
	if rejected {
		w.excluded = "a session ended before anything was sent: the default validator rejected the empty 200 for good"
		o.probe("excluded: empty 200 rejected by the validator")
	}
	if len(w.received) == 0 {
		o.probe("client never received an event")
	}
	if len(res.Unfinish) > 0 {
		var names []string
		for _, t := range res.Unfinish {
			names = append(names, t.Name+"@"+t.Site())
		}
		if w.faultsOver && !rejected {
			exp := w.expected()
			f := -1
			if len(w.received) > 0 {
				f = w.indexOfFirst(exp)
			}
			o.violate("C05", "never-caught-up", "faults stopped and all publishes returned, but the system went idle with the client at %s of %s (first received index %d); blocked: %s",
				w.tagsReceived(), w.tagsExpected(exp), f, strings.Join(names, ", "))
		} else {
			o.Inconclusive = true
		}
		return
	}
	if !rejected && w.faultsOver && !w.caughtUp {
		exp := w.expected()
		o.violate("C05", "never-caught-up", "Connect returned %v before the client had caught up: received %s of %s", w.connectErr, w.tagsReceived(), w.tagsExpected(exp))
	}
	// probes
	for i, c := range w.conns {
		if i > 0 && len(c.reqHeader.Values("Last-Event-ID")) == 1 {
			o.probe("reconnect carrying Last-Event-ID")
		}
		if c.writeErrs > 0 {
			o.probe("server write failed on a cut connection")
		}
	}
	if len(w.conns) >= 3 {
		o.probe("three or more connections")
	}
	if w.caughtUp && len(w.received) >= 2 && w.cuts > 0 {
		o.probe("caught up after at least one cut")
	}
}

func init() {
	register(&World{
		Name: "e2e", Level: "exploration",
		Rule: "each evaluation draws a replayer (Finite capacity 64 or Valid with a huge TTL; manual or automatic IDs), session topics, 1-3 publishers with up to 12 messages (unique tag as first data line; adversarial further data, types, IDs, comments, retry), a client back-off, 0-4 cuts (abrupt at any byte offset of what was flushed, incl. before the headers and inside an event, with io.ErrUnexpectedEOF or an opaque error; or a server-side cancel that ends the handler after the stream started) and the schedule. " +
			"After every callback the received sequence must be the published sequence from the first received event on; once faults stop and all publishes returned the client must catch up before the system goes idle. Non-trivial: at least one event received; distinct = distinct (scenario, scheduling hash).",
		Real: []string{"sse.Server.ServeHTTP, Upgrade, Session (Send/Flush)", "sse.Joe + FiniteReplayer/ValidReplayer (instrumented copy)", "sse.Message encoding", "sse.Client/Connection/Connect, back-off on the fake clock", "event parser and interpreter", "net/http.Client"},
		Stub: []string{"simnet: RoundTripper + ResponseWriter/FlushError + Body with net/http's contract (headers at first flush or handler return, buffered writes, EOF at handler return, cut => read error on the client and failing writes + context cancellation on the server, Body.Close cancels the server request)", "scheduler: synctest bubble + generated yield points"},
		Assumptions: []string{
			"the replayer is large enough to hold everything published while the client is away (as the property requires)",
			"IDs are unique, non-empty, header-safe and NUL-free; session topics are the same on every reconnect",
			"a client that never got a first event, or whose session ended with an empty 200 (rejected by the default validator), is outside the property",
			"HTTP/2, proxies and transparent retries of net/http are not modelled",
		},
		MustProbes: []string{"reconnect carrying Last-Event-ID", "caught up after at least one cut", "server write failed on a cut connection"},
		Run:        runE2EWorld,
	}, "C05")
}
