package sim

import (
	"errors"
	"fmt"
	"math"
	"strconv"
	"strings"
	"time"
	"unsafe"

	sse "github.com/tmaxmax/go-sse"
)

// Replayer world (DESIGN.md 3): one task, a real FiniteReplayer or
// ValidReplayer, the world's own clock behind ValidReplayer.Now, simulated
// subscribers whose k-th Send/Flush fails, generated histories of Put (valid
// and invalid) / Replay / GC / clock advance, checked operation by operation
// against a reference model (bounded FIFO / expiring FIFO) and, for C18,
// against a reflective reachability walk.

type modelEntry struct {
	msg    *sse.Message // pointer returned by Put
	id     string
	tag    string
	topics []string
	put    time.Duration // world clock at Put
	str    string        // encoding of the message Put returned, at that moment
}

type replayerWorld struct {
	o      *Outcome
	ch     *Chooser
	prop   string
	finite bool
	auto   bool
	n      int // capacity (finite)
	ttl    time.Duration
	gcInt  time.Duration
	now    time.Duration
	epoch  time.Time

	fr *sse.FiniteReplayer
	vr *sse.ValidReplayer
	r  sse.Replayer

	all         []modelEntry // every accepted put, in order
	nextAuto    uint64
	tagSeq      int
	usedEmptyID bool
	wide        bool // large topic sets (wideTopics)
	prefixBase  []string
	// the slice passed to the previous Replay and what it held then
	lastReplayTopics, lastReplayIntent []string
	gcLo                               time.Duration // earliest / latest instant of the latest collection, over all readings of the documentation
	gcHi                               time.Duration
	anyPut                             bool
	ops                                []string
}

func (w *replayerWorld) clockNow() time.Time { return w.epoch.Add(w.now) }

// satAdd and satMul: durations near the end of time.Duration's range (a TTL meant to keep
// everything for the lifetime of the program) must not wrap around in the reference.
func satAdd(a, b time.Duration) time.Duration {
	if b > 0 && a > math.MaxInt64-b {
		return math.MaxInt64
	}
	return a + b
}

func satMul(a time.Duration, k int64) time.Duration {
	if a > 0 && int64(a) > math.MaxInt64/k {
		return math.MaxInt64
	}
	return a * time.Duration(k)
}

// hugeTTL: nothing expires within any history generated here.
func (w *replayerWorld) hugeTTL() bool { return w.ttl > 100*365*24*time.Hour }

func (w *replayerWorld) expired(e modelEntry, at time.Duration) bool {
	return !w.finite && satAdd(e.put, w.ttl) <= at
}

// live returns the model's buffer: last n accepted puts (finite) or all
// accepted puts (valid; expiry is checked separately).
func (w *replayerWorld) live() []modelEntry {
	if w.finite && len(w.all) > w.n {
		return w.all[len(w.all)-w.n:]
	}
	return w.all
}

func fmtTopics(t []string) string {
	q := make([]string, len(t))
	for i, x := range t {
		q[i] = strconv.Quote(x)
	}
	return "[" + strings.Join(q, ",") + "]"
}

func (w *replayerWorld) history() string { return strings.Join(w.ops, "; ") }

func (w *replayerWorld) op(format string, a ...any) {
	s := fmt.Sprintf(format, a...)
	w.ops = append(w.ops, s)
	w.o.logf("%s", s)
}

func (w *replayerWorld) cfgString() string {
	if w.finite {
		return fmt.Sprintf("FiniteReplayer(count=%d, autoIDs=%v)", w.n, w.auto)
	}
	return fmt.Sprintf("ValidReplayer(ttl=%v, autoIDs=%v, GCInterval=%v)", w.ttl, w.auto, w.gcInt)
}

func (w *replayerWorld) violate(prop, clause, format string, a ...any) {
	w.o.violate(prop, clause, "%s: %s | history: %s", w.cfgString(), fmt.Sprintf(format, a...), w.history())
}

// topics draws a topic set for a Put or a Replay (large sets in "wide" runs).
func (w *replayerWorld) topics(label string, forMessage bool) []string {
	if w.wide {
		return genTopicsWide(w.ch, label, forMessage)
	}
	if w.ch.Chance(1, 6, label+" topics are a prefix of one shared array") {
		// a caller that keeps one array of topics (a path org, team, user) and passes prefixes of it:
		// two topic lists are the same only if they have the same elements, whatever memory they share
		if w.prefixBase == nil {
			w.prefixBase = []string{"a", sse.DefaultTopic, "b", "c"}
		}
		return w.prefixBase[:1+w.ch.Intn(len(w.prefixBase), label+" prefix length")]
	}
	return genTopics(w.ch, label)
}

// fill puts n valid messages in a row (used by the large-capacity profile).
func (w *replayerWorld) fill(n int) {
	for i := 0; i < n && len(w.o.Violations) == 0; i++ {
		w.doValidPut()
	}
}

func (w *replayerWorld) doPut() {
	w.doPutKind(w.ch.Weighted([]int{12, 1, 1, 1}, "put kind")) // valid, no topics, wrong id presence, empty topics slice
}

func (w *replayerWorld) doValidPut() { w.doPutKind(0) }

func (w *replayerWorld) doPutKind(kind int) {
	ch := w.ch
	w.tagSeq++
	tag := fmt.Sprintf("m%d", w.tagSeq)
	m := &sse.Message{}
	m.AppendData(tag)
	topics := w.topics("put", true)
	idStr := ""
	wantErr := false
	switch kind {
	case 1:
		topics = nil
		wantErr = true
	case 3:
		topics = []string{}
		wantErr = true
	}
	hasID := !w.auto
	if kind == 2 {
		hasID = w.auto
		wantErr = true
	}
	if hasID {
		idStr = "id" + strconv.Itoa(w.tagSeq)
		if w.finite && kind == 0 && len(w.all) >= w.n && ch.Chance(1, 6, "reuse the ID of the event this Put evicts") {
			// IDs that cycle (a sequence number modulo N): no two buffered events ever share one
			idStr = w.all[len(w.all)-w.n].id
			w.o.probe("Put reusing the ID of the event it evicts")
		} else if !w.usedEmptyID && kind == 0 && ch.Chance(1, 8, "empty id") {
			// the empty string is a legal, set ID (distinct from an unset one)
			idStr = ""
			w.usedEmptyID = true
			w.o.probe("event with the set-but-empty ID buffered")
		}
		m.ID = sse.ID(idStr)
	}
	before := m.String()
	possiblyDue := !w.finite && w.gcInt > 0 && w.now-w.gcLo >= w.gcInt
	surelyDue := !w.finite && w.anyPut && w.gcInt > 0 && w.now-w.gcHi >= w.gcInt
	got, err := w.r.Put(m, topics)
	w.op("Put(%s id=%q topics=%s)@%v -> err=%v", tag, idStr, fmtTopics(topics), w.now, err)
	prop := "C08"
	if !w.finite {
		prop = "C09"
	}
	if m.String() != before {
		w.o.violate("C19", "put-mutates", "%s: Put modified the caller's message %s", w.cfgString(), tag)
	}
	// The documentation leaves open what exactly starts and restarts the GC
	// interval (construction or first Put; whether an explicit GC or a rejected
	// Put restarts it). gcLo/gcHi bound the instant of the latest collection
	// over all those readings; a Put must collect only if it is due under
	// every one of them (surelyDue).
	if !w.anyPut && !wantErr {
		w.anyPut = true
		if w.gcHi < w.now {
			w.gcHi = w.now
		}
	}
	if possiblyDue && !wantErr {
		w.gcHi = w.now
	}
	if possiblyDue && wantErr && !w.expiredReachable() {
		// a rejected Put may or may not collect; whether it did is observable: if nothing
		// expired is reachable any more, a collection ran (or none was needed) and the
		// interval restarts; if expired messages are still there, no collection ran and a
		// Put that restarts the interval anyway would postpone the collection that is due
		w.gcHi = w.now
	}
	if surelyDue && !wantErr {
		w.gcLo = w.now
	}
	if wantErr {
		w.o.fault("invalid Put")
		if err == nil {
			if w.finite {
				w.violate(prop, "put-rejects", "invalid Put(%s) was accepted", tag)
			}
			// accepted by the implementation: keep the model in step
		} else {
			if (kind == 1 || kind == 3) && !errors.Is(err, sse.ErrNoTopic) && w.finite {
				w.violate(prop, "put-rejects", "Put without topics returned %v, want ErrNoTopic", err)
			}
			if got != nil && w.finite {
				w.violate(prop, "put-rejects", "rejected Put returned a message")
			}
			return
		}
	}
	if err != nil {
		w.violate(prop, "put-accepts", "valid Put(%s) returned %v", tag, err)
		return
	}
	if got == nil {
		w.violate(prop, "put-accepts", "valid Put(%s) returned a nil message", tag)
		return
	}
	e := modelEntry{msg: got, tag: tag, topics: topics, put: w.now, str: got.String()}
	if w.auto && got != m && ch.Chance(1, 4, "caller reuses its message") {
		// with automatic IDs the replayer keeps its own copy: the caller goes on using its Message
		// (a relay loop that decodes the next event into the same value) without touching what is buffered
		if ch.Chance(1, 2, "reuse by UnmarshalText") {
			_ = m.UnmarshalText([]byte("data: reused by the caller\n\n"))
		} else {
			m.AppendData("appended by the caller")
			m.Type = sse.Type("changed")
		}
		w.o.probe("caller reused its message after Put")
	}
	if w.auto {
		want := strconv.FormatUint(w.nextAuto, 10)
		if !got.ID.IsSet() || got.ID.String() != want {
			if w.finite {
				w.violate(prop, "auto-ids", "Put #%d got ID %q (set=%v), want %q", w.nextAuto, got.ID.String(), got.ID.IsSet(), want)
			}
		}
		w.nextAuto++
		e.id = got.ID.String()
	} else {
		if got.ID.String() != idStr {
			w.violate(prop, "put-accepts", "Put(%s) returned a message with ID %q, want %q", tag, got.ID.String(), idStr)
		}
		e.id = idStr
	}
	if msgTag(got) != tag {
		w.violate(prop, "put-accepts", "Put(%s) returned a message with payload %q", tag, msgTag(got))
	}
	w.all = append(w.all, e)
	if surelyDue {
		w.checkRetention("Put that was due to collect")
	}
}

// presented ID classes
const (
	idOldest = iota
	idMiddle
	idNewest
	idEvicted
	idNever
	idUnset
	idNonCanonical
	idBeforeWrite
)

var idClassNames = []string{"oldest", "middle", "newest", "evicted", "never-issued", "unset", "non-canonical numeral", "before-write-index"}

func (w *replayerWorld) doReplay() { w.doReplayBiased([]int{3, 4, 4, 2, 2, 1, 2}) }

func (w *replayerWorld) doReplayBiased(classWeights []int) {
	ch := w.ch
	live := w.live()
	class := ch.Weighted(classWeights, "presented id class")
	var id sse.EventID
	pos := -1 // index in live of the presented ID, if buffered
	desc := ""
	switch {
	case class == idOldest && len(live) > 0:
		pos = 0
	case class == idMiddle && len(live) > 0:
		pos = ch.Intn(len(live), "presented index")
	case class == idNewest && len(live) > 0:
		pos = len(live) - 1
	case class == idEvicted && w.finite && len(w.all) > w.n:
		ev := w.all[ch.Intn(len(w.all)-w.n, "evicted index")]
		id = sse.ID(ev.id)
		desc = "evicted " + ev.id
		for k, e := range live {
			if e.id == ev.id && !w.auto {
				pos, class = k, idMiddle // its ID was given to a later event that is still buffered
			}
		}
	case class == idNonCanonical && w.auto && len(live) > 0:
		p := ch.Intn(len(live), "presented index")
		forms := []string{"0" + live[p].id, "+" + live[p].id, " " + live[p].id, live[p].id + " ", "00" + live[p].id}
		s := forms[ch.Intn(len(forms), "non-canonical form")]
		id = sse.ID(s)
		desc = "non-canonical " + strconv.Quote(s)
		class = idNever
		w.o.probe("non-canonical numeral presented (auto IDs)")
	case class == idUnset:
		desc = "unset"
	default:
		class = idNever
		nevers := []string{"zzz", "", "id0", "-1", "18446744073709551615", "99999999999999999999", "1e3", "id999",
			"9223372036854775807", "9223372036854775808", "4294967296", "4294967295", "-0", "0x1", "1_0", "\u0663", "\uff11"}
		if w.auto {
			nevers = append(nevers, strconv.FormatUint(w.nextAuto, 10), strconv.FormatUint(w.nextAuto+5, 10))
		}
		s := nevers[ch.Intn(len(nevers), "never-issued id")]
		// make sure it really was never issued
		for _, e := range w.all {
			if e.id == s {
				s = "never-" + s
			}
		}
		id = sse.ID(s)
		desc = "never-issued " + strconv.Quote(s)
	}
	if pos >= 0 {
		id = sse.ID(live[pos].id)
		desc = fmt.Sprintf("%s(%s)", idClassNames[class], live[pos].id)
		if pos == len(live)-1 {
			class = idNewest
			w.o.probe("newest ID presented")
			if w.finite && len(w.all) >= w.n {
				w.o.probe("newest ID presented, buffer full")
				if len(w.all)%w.n == 0 {
					w.o.probe("newest ID presented, write index 0")
				}
			}
		}
	}
	topics := w.topics("replay", false)
	if w.lastReplayTopics != nil && ch.Chance(1, 4, "the same topics slice as in the previous Replay") {
		// the same Subscription value replayed again (a reconnecting client's stored subscription): what the
		// caller means is what it put into the slice; a replayer that edits the slice in place changes it
		topics = w.lastReplayTopics
		w.o.probe("Replay with the slice object of the previous Replay")
	} else {
		w.lastReplayTopics, w.lastReplayIntent = topics, append([]string(nil), topics...)
	}
	intent := w.lastReplayIntent
	sub := &simSub{ID: 1}
	if ch.Chance(1, 5, "replay fault") {
		if ch.Chance(1, 4, "flush fault") {
			sub.FailFlushAt = 1
		} else {
			sub.FailSendAt = ch.Range(1, 3, "failing send")
		}
		sub.Disguise = drawDisguise(ch, "replay failure")
	}
	err := w.r.Replay(sse.Subscription{Client: sub, LastEventID: id, Topics: topics})
	w.op("Replay(id=%s topics=%s failSend=%d failFlush=%d)@%v -> %d sends err=%v", desc, fmtTopics(intent), sub.FailSendAt, sub.FailFlushAt, w.now, sub.sends, err)
	topics = intent

	prop := "C08"
	if !w.finite {
		prop = "C09"
	}
	sh := newHasher()
	sh.int(w.n)
	sh.int(len(live))
	if w.finite {
		sh.int(len(w.all) % w.n)
	}
	sh.int(class)
	sh.int(b2i(w.auto))
	w.o.States = append(w.o.States, uint64(sh))

	// never send an expired event (C09), whatever the ID
	sent := sub.Sent()
	if !w.finite {
		for _, m := range sent {
			for _, e := range w.all {
				if e.msg == m && w.expired(e, w.now) {
					w.violate("C09", "replayed-expired", "replayed %s at %v although it was put at %v with TTL %v", e.tag, w.now, e.put, w.ttl)
				}
			}
		}
	}

	// expected sequence
	constrained := true
	var want []modelEntry
	switch {
	case pos >= 0 && !w.expired(live[pos], w.now):
		for _, e := range live[pos+1:] {
			if !w.expired(e, w.now) && topicsIntersect(topics, e.topics) {
				want = append(want, e)
			}
		}
	case pos >= 0:
		constrained = false // ID of an expired event: property is silent
	case class == idEvicted && w.auto:
		constrained = false // evicted ID with automatic IDs: property is silent
	case !w.finite:
		constrained = false // C09 speaks about IDs of unexpired events only (C04 covers never-issued IDs through Joe)
	default:
		// never-issued, unset, evicted with manual IDs: nothing
	}
	if !constrained {
		w.o.probe("unconstrained replay (expired/evicted id)")
		return
	}
	// under an injected Send failure the expected sequence is the prefix ending at the failing Send
	wantN := len(want)
	sendFails := sub.FailSendAt > 0 && sub.FailSendAt <= len(want)
	if sendFails {
		wantN = sub.FailSendAt
		w.o.fault("Send fails during replay")
	}
	clause := "replay-sequence"
	if class == idNewest {
		clause = "replay-newest"
	} else if class == idNever || class == idUnset || class == idEvicted {
		clause = "replay-invalid-id"
	}
	if len(sent) != wantN {
		w.violate(prop, clause, "Replay(id=%s topics=%s) sent %s, want %s", desc, fmtTopics(topics), tagsOf(sent), entryTags(want[:wantN]))
		return
	}
	for i := range sent {
		if sent[i] != want[i].msg {
			if msgTag(sent[i]) != want[i].tag || sent[i].ID.String() != want[i].id {
				w.violate(prop, clause, "Replay(id=%s topics=%s) sent %s, want %s", desc, fmtTopics(topics), tagsOf(sent), entryTags(want[:wantN]))
				return
			}
		}
		if got := sent[i].String(); got != want[i].str {
			w.violate(prop, "replay-content", "Replay(id=%s) sent %s as %q, but it was buffered as %q", desc, want[i].tag, got, want[i].str)
			return
		}
	}
	if len(want) > 0 {
		w.o.probe("replay with at least one event")
	}
	// Flush discipline and error identity
	nCalls := len(sub.Calls)
	switch {
	case sendFails:
		if !errors.Is(err, sub.Failed) {
			w.violate(prop, "replay-error", "Send failed with %v, Replay returned %v", sub.Failed, err)
		}
		if nCalls > 0 && sub.Calls[nCalls-1].Flush {
			// flushing what was sent before the failure is harmless
		}
	case len(sent) > 0:
		if !sub.Calls[nCalls-1].Flush {
			w.violate(prop, "replay-flush", "Replay sent %d events without a final Flush", len(sent))
		}
		for i, c := range sub.Calls {
			if c.Flush && i != nCalls-1 && false {
				_ = c
			}
		}
		if sub.FailFlushAt > 0 && sub.flushes >= sub.FailFlushAt {
			w.o.fault("Flush fails after replay")
			if !errors.Is(err, sub.Failed) {
				w.violate(prop, "replay-error", "Flush failed with %v, Replay returned %v", sub.Failed, err)
			}
		} else if err != nil {
			w.violate(prop, "replay-error", "Replay returned %v without any injected failure", err)
		}
	default:
		if sub.Failed == nil && err != nil {
			w.violate(prop, "replay-error", "Replay returned %v without any injected failure", err)
		}
	}
}

func tagsOf(ms []*sse.Message) string {
	t := make([]string, len(ms))
	for i, m := range ms {
		t[i] = msgTag(m) + "#" + m.ID.String()
	}
	return "[" + strings.Join(t, " ") + "]"
}

func entryTags(es []modelEntry) string {
	t := make([]string, len(es))
	for i, e := range es {
		t[i] = e.tag + "#" + e.id
	}
	return "[" + strings.Join(t, " ") + "]"
}

// expiredReachable reports whether some expired message is still reachable from the replayer.
func (w *replayerWorld) expiredReachable() bool {
	reach := reachableMessages(w.r)
	for _, e := range w.all {
		if w.expired(e, w.now) && reach[uintptr(unsafe.Pointer(e.msg))] {
			return true
		}
	}
	return false
}

// checkRetention is the C18 oracle.
func (w *replayerWorld) checkRetention(after string) {
	reach := reachableMessages(w.r)
	byPtr := map[uintptr]modelEntry{}
	for _, e := range w.all {
		byPtr[uintptr(unsafe.Pointer(e.msg))] = e
	}
	if w.finite {
		if len(reach) > w.n {
			w.violate("C18", "finite-retains", "%d messages reachable from a replayer of capacity %d after %s", len(reach), w.n, after)
			return
		}
		liveSet := map[uintptr]bool{}
		for _, e := range w.live() {
			liveSet[uintptr(unsafe.Pointer(e.msg))] = true
		}
		for p := range reach {
			if !liveSet[p] {
				tag := "?"
				if e, ok := byPtr[p]; ok {
					tag = e.tag
				}
				w.violate("C18", "finite-retains", "evicted message %s still reachable after %s", tag, after)
				return
			}
		}
		if len(w.all) > w.n {
			w.o.probe("retention checked after eviction")
		}
		return
	}
	for p := range reach {
		e, ok := byPtr[p]
		if !ok {
			continue
		}
		if w.expired(e, w.now) {
			w.violate("C18", "valid-retains", "expired message %s (put %v, TTL %v) still reachable at %v after %s", e.tag, e.put, w.ttl, w.now, after)
			return
		}
	}
	nExpired := 0
	for _, e := range w.all {
		if w.expired(e, w.now) {
			nExpired++
		}
	}
	if nExpired > 0 {
		w.o.probe("retention checked with expired events")
	}
}

func runReplayerWorld(rc *RunCtx) (out *Outcome) {
	o := newOutcome()
	out = o // also when a panic inside go-sse is recovered below
	if rc.KeepLog {
		o.Log = []string{}
	}
	ch := rc.Ch
	w := &replayerWorld{o: o, ch: ch, prop: rc.Prop, epoch: time.Unix(1_700_000_000, 0)}
	switch rc.Prop {
	case "C08":
		w.finite = true
	case "C09":
		w.finite = false
	default:
		w.finite = ch.Chance(1, 2, "finite?")
	}
	w.auto = ch.Chance(1, 2, "auto ids")
	w.wide = ch.Chance(1, 20, "large topic sets")
	hugeFill := 0
	defer func() {
		if p := recover(); p != nil {
			prop := "C08"
			if !w.finite {
				prop = "C09"
			}
			w.violate(prop, "panic", "panic: %v", p)
			finishReplayer(w)
		}
	}()
	if w.finite {
		w.n = ch.Weighted([]int{4, 4, 3, 2, 1, 1, 1}, "capacity") + 2
		if ch.Chance(1, 12, "large capacity") {
			w.n = []int{15, 16, 17, 33}[ch.Intn(4, "large capacity value")]
		}
		if ch.Chance(1, 80, "capacity in the hundreds") {
			// a buffer that is filled more than twice over before anything else happens
			w.n = []int{257, 300, 513, 999}[ch.Intn(4, "huge capacity value")]
			hugeFill = 2*w.n + ch.Range(1, 40, "fill beyond twice the capacity")
			o.probe("capacity in the hundreds, filled twice over")
		}
		fr, err := sse.NewFiniteReplayer(w.n, w.auto)
		if err != nil {
			o.violate("C08", "constructor", "NewFiniteReplayer(%d): %v", w.n, err)
			return o
		}
		w.fr, w.r = fr, fr
	} else {
		ttls := []time.Duration{10 * time.Second, time.Second, 100 * time.Millisecond, time.Hour}
		w.ttl = ttls[ch.Intn(len(ttls), "ttl")]
		if ch.Chance(1, 8, "ttl for the lifetime of the program") {
			// "It is technically possible to use a very big duration in order to store and replay every message put"
			w.ttl = []time.Duration{250 * 365 * 24 * time.Hour, math.MaxInt64}[ch.Intn(2, "huge ttl")]
			o.probe("TTL beyond 100 years")
		}
		vr, err := sse.NewValidReplayer(w.ttl, w.auto)
		if err != nil {
			o.violate("C09", "constructor", "NewValidReplayer(%v): %v", w.ttl, err)
			return o
		}
		switch ch.Weighted([]int{3, 2, 2, 2}, "gc interval") {
		case 0: // default ttl/4
		case 1:
			vr.GCInterval = 0
		case 2:
			vr.GCInterval = satMul(w.ttl, 3)
		case 3:
			vr.GCInterval = w.ttl / 20
		}
		w.gcInt = vr.GCInterval
		vr.Now = w.clockNow
		w.vr, w.r = vr, vr
	}
	o.logf("%s", w.cfgString())

	num, den := 7, 8
	if ch.Chance(1, 3, "long history") {
		num, den = 31, 32
	}
	maxOps := 40
	if !w.finite {
		maxOps = 60
	}
	if ch.Chance(1, 25, "very long history") {
		// hundreds of operations: multi-digit automatic IDs, buffers that grow to dozens of entries and
		// shrink again, state that goes wrong silently and shows many operations later
		num, den, maxOps = 255, 256, 400
		o.probe("history of up to 400 operations")
	}
	if hugeFill > 0 {
		w.fill(hugeFill)
		w.checkRetention("filling the buffer twice over")
	}
	// swarm: per-run operation mix (balanced, put-heavy so that the buffer grows, collection-heavy)
	profiles := [][]int{{10, 6, 2, 5, 2, 1}, {30, 4, 2, 3, 3, 1}, {10, 6, 8, 8, 4, 2}}
	profile := ch.Weighted([]int{3, 2, 2}, "op profile")
	for i := 0; i < maxOps && ch.Chance(num, den, "more ops") && len(o.Violations) == 0; i++ {
		weights := []int{10, 6, 0, 0, 0, 0}
		if !w.finite {
			weights = profiles[profile]
		}
		switch ch.Weighted(weights, "op") {
		case 0:
			w.doPut()
		case 1:
			w.doReplay()
		case 2:
			w.vr.GC()
			w.op("GC()@%v", w.now)
			w.gcHi = w.now
			w.checkRetention("explicit GC")
			o.fault("explicit GC")
		case 5:
			// GCInterval is an exported field: it may be changed while the replayer is in use
			vals := []time.Duration{0, w.ttl / 4, satMul(w.ttl, 3), w.ttl / 20}
			w.vr.GCInterval = vals[ch.Intn(len(vals), "new gc interval")]
			w.gcInt = w.vr.GCInterval
			w.op("GCInterval = %v", w.gcInt)
			o.probe("GCInterval changed during the history")
		case 4:
			// macro: expire a chosen prefix, collect, and look at the result at once
			// (faults placed right after a state change, not uniformly)
			var liveIdx []int
			for k, e := range w.all {
				if !w.expired(e, w.now) {
					liveIdx = append(liveIdx, k)
				}
			}
			if len(liveIdx) > 0 && !w.hugeTTL() {
				e := w.all[liveIdx[ch.Intn(len(liveIdx), "boundary entry")]]
				w.now = e.put + w.ttl
				w.op("advance to the expiry of %s -> %v", e.tag, w.now)
				o.fault("clock: jump to an expiry boundary")
			}
			w.vr.GC()
			w.op("GC()@%v", w.now)
			w.gcHi = w.now
			w.checkRetention("explicit GC")
			o.fault("explicit GC")
			if len(o.Violations) == 0 {
				w.doReplayBiased([]int{3, 2, 6, 0, 1, 0, 0})
			}
		case 3:
			adv := []time.Duration{0, w.ttl / 10, w.ttl / 3, w.ttl - 1, w.ttl, w.ttl + 1, w.ttl * 5}
			if w.hugeTTL() {
				adv = []time.Duration{0, time.Second, time.Hour, 24 * time.Hour, 365 * 24 * time.Hour, time.Minute, 30 * 24 * time.Hour}
			}
			d := adv[ch.Intn(len(adv), "advance")]
			// boundary-directed: jump to (just before) the expiry of a chosen live entry,
			// so that exactly a chosen prefix of the buffer expires
			var liveIdx []int
			for k, e := range w.all {
				if !w.expired(e, w.now) {
					liveIdx = append(liveIdx, k)
				}
			}
			if len(liveIdx) > 0 && !w.hugeTTL() && ch.Chance(1, 2, "advance to an expiry boundary") {
				e := w.all[liveIdx[ch.Intn(len(liveIdx), "boundary entry")]]
				d = e.put + w.ttl - w.now
				if ch.Chance(1, 3, "just before") {
					d--
				}
				o.fault("clock: jump to an expiry boundary")
			}
			w.now += d
			w.op("advance %v -> %v", d, w.now)
			switch {
			case d == 0:
				o.fault("clock: zero advance")
			case d >= w.ttl:
				o.fault("clock: jump beyond TTL")
			default:
				o.fault("clock: small advance")
			}
		}
		if w.finite {
			w.checkRetention("operation")
		}
	}
	finishReplayer(w)
	return o
}

func finishReplayer(w *replayerWorld) {
	o := w.o
	h := newHasher()
	h.str(w.cfgString())
	for _, s := range w.ops {
		h.str(s)
	}
	o.Key = uint64(h)
	o.LogHash = uint64(h)
	nPut := len(w.all)
	o.Nontrivial = nPut >= 1 && len(w.ops) >= 3
	o.SimTime = w.now
	if len(w.ops) > 12 {
		o.Sample = map[string]any{"config": w.cfgString(), "history_prefix": w.ops[:12], "ops": len(w.ops)}
	} else {
		o.Sample = map[string]any{"config": w.cfgString(), "history": w.ops}
	}
	if w.finite && nPut > w.n {
		o.probe("history longer than capacity (wrap-around)")
	}
	if !w.finite && nPut > 8 {
		o.probe("buffer grown beyond 8")
	}
}

func init() {
	real := []string{"sse.FiniteReplayer", "sse.ValidReplayer", "queue ring buffer", "findIDInQueue", "ensureID", "sse.Message (Clone, String)"}
	stub := []string{"subscriber (MessageWriter) with injected Send/Flush failure", "clock behind ValidReplayer.Now"}
	register(&World{
		Name: "replayer", Level: "exploration",
		Rule: "each evaluation draws a FiniteReplayer configuration (capacity 2..8, sometimes 15-33, one run in 80 257-999 filled twice over; ID mode) and a history of up to 40 (one run in 25: 400) Put (valid / invalid; manual IDs may cycle so that a Put reuses the ID of the event it evicts; with automatic IDs the caller may go on using its Message) and Replay operations (presented ID: oldest, middle, newest, evicted, never issued incl. non-canonical and huge numerals, unset; topic sets incl. repeated topics, prefixes of one shared array, the slice object of the previous Replay, one run in 20 up to 90 topics out of a hundred; k-th Send or the Flush failing, also with sentinel-matching errors), stepped in lockstep with a slice-based bounded-FIFO model. " +
			"Non-trivial: at least one accepted Put and three operations; distinct = distinct (configuration, operation history with results).",
		Real: real, Stub: stub,
		Assumptions: []string{"single caller (the type is documented as not thread-safe; concurrent use through Joe is C04's)", "automatic IDs presented as non-canonical numerals (\"05\", \"+5\") count as never issued"},
		MustProbes:  []string{"newest ID presented", "newest ID presented, buffer full", "newest ID presented, write index 0", "history longer than capacity (wrap-around)", "replay with at least one event", "non-canonical numeral presented (auto IDs)"},
		Run:         runReplayerWorld,
	}, "C08")
	register(&World{
		Name: "replayer", Level: "exploration",
		Rule: "each evaluation draws a ValidReplayer configuration (TTL incl. 250 years and MaxInt64, GCInterval 0 / default / smaller / larger than TTL and changed during the history, ID mode) and a history of up to 60 (one run in 25: 400) Put / Replay / GC / clock-advance operations (advances 0, < TTL, = TTL, > TTL, to an expiry boundary; the same Put and Replay variety as for C08), stepped in lockstep with an expiring-FIFO model on the world's clock. " +
			"Non-trivial: at least one accepted Put and three operations; distinct = distinct (configuration, operation history with results).",
		Real: real, Stub: stub,
		Assumptions: []string{"single caller", "non-decreasing clock", "IDs of expired or collected events and never-issued IDs are left unconstrained here (C04 decides never-issued IDs through Joe)"},
		MustProbes:  []string{"newest ID presented", "replay with at least one event", "buffer grown beyond 8"},
		Run:         runReplayerWorld,
	}, "C09")
	register(&World{
		Name: "replayer", Level: "exploration",
		Rule: "same histories as C08/C09 (either replayer); after every operation (finite) or after every explicit GC and every Put that was due to collect (valid) a reflective walk from the replayer value (pointers, structs, interfaces, maps, arrays, slices up to capacity; no field names) collects every reachable *Message and compares with the model's live set. " +
			"Non-trivial: at least one accepted Put and three operations; distinct = distinct (configuration, history).",
		Real: real, Stub: stub,
		Assumptions: []string{"reachability through the replayer value only (what the replayer itself retains); a Put is 'due' when GCInterval has passed since the latest moment any collection can have run"},
		MustProbes:  []string{"retention checked after eviction", "retention checked with expired events"},
		Run:         runReplayerWorld,
	}, "C18")
}
