package sim

import (
	"math/rand/v2"
	"strings"
)

// The choices of a run are kept in separate streams, so that the shrinker can
// delete, say, a scenario item without shifting every scheduling decision
// that follows it in time.
const (
	streamGen   = iota // scenario, payloads, fault plans
	streamSched        // which task runs next, time ticks
	streamOrder        // select case orders, map iteration orders
	streamIO           // read / write chunk sizes
	nStreams
)

// Trace is the recorded (or replayed) choices of one run, per stream.
type Trace [][]uint32

func newTrace() Trace { return make(Trace, nStreams) }

func (t Trace) clone() Trace {
	c := newTrace()
	for i := range t {
		if i < nStreams {
			c[i] = append([]uint32(nil), t[i]...)
		}
	}
	return c
}

// trimmed drops trailing zeros of every stream (missing answers are 0 anyway).
func (t Trace) trimmed() Trace {
	c := t.clone()
	for i := range c {
		for len(c[i]) > 0 && c[i][len(c[i])-1] == 0 {
			c[i] = c[i][:len(c[i])-1]
		}
	}
	return c
}

// Len is the total number of choices.
func (t Trace) Len() int {
	n := 0
	for _, s := range t {
		n += len(s)
	}
	return n
}

// less orders traces by (total length, stream by stream lexicographic).
func (t Trace) less(o Trace) bool {
	if t.Len() != o.Len() {
		return t.Len() < o.Len()
	}
	for i := 0; i < nStreams; i++ {
		var a, b []uint32
		if i < len(t) {
			a = t[i]
		}
		if i < len(o) {
			b = o[i]
		}
		if len(a) != len(b) {
			return len(a) < len(b)
		}
		for k := range a {
			if a[k] != b[k] {
				return a[k] < b[k]
			}
		}
	}
	return false
}

func streamOf(label string) int {
	switch {
	case label == "run" || strings.HasPrefix(label, "tick") || strings.HasPrefix(label, "pct "):
		return streamSched
	case strings.HasPrefix(label, "select ") || strings.HasPrefix(label, "maprange "):
		return streamOrder
	case strings.HasPrefix(label, "chunk") || label == "tiny chunk":
		return streamIO
	}
	return streamGen
}

// Chooser is the single source of nondeterminism of a run (DESIGN.md 2.1).
// In search mode answers come from a PRNG seeded from (VERIF_SEED, run index);
// in replay mode from a recorded trace (missing answers are 0, out-of-range
// answers are reduced modulo n). Every answer is recorded.
type Chooser struct {
	rng    *rand.Rand
	replay Trace
	isRep  bool
	pos    [nStreams]int
	Rec    Trace
	Labels []string // only when Keep
	Keep   bool
}

func mix64(a, b uint64) uint64 {
	x := a*0x9E3779B97F4A7C15 ^ (b + 0xD1B54A32D192ED03)
	x ^= x >> 32
	x *= 0xD6E8FEB86659FD93
	x ^= x >> 32
	x *= 0xD6E8FEB86659FD93
	x ^= x >> 32
	return x
}

// NewSearchChooser returns a PRNG-backed chooser for run index idx of seed.
func NewSearchChooser(seed uint64, idx uint64) *Chooser {
	return &Chooser{rng: rand.New(rand.NewPCG(mix64(seed, idx), mix64(idx, seed^0xabcdef))), Rec: newTrace()}
}

// NewReplayChooser returns a chooser answering from trace.
func NewReplayChooser(trace Trace) *Chooser {
	return &Chooser{replay: trace.clone(), isRep: true, Rec: newTrace()}
}

// Choose returns a value in [0,n).
func (c *Chooser) Choose(n int, label string) int {
	if n <= 1 {
		return 0
	}
	var v int
	st := streamOf(label)
	if c.isRep {
		if r := c.replay[st]; c.pos[st] < len(r) {
			v = int(r[c.pos[st]] % uint32(n))
		}
		c.pos[st]++
	} else {
		v = c.rng.IntN(n)
	}
	c.Rec[st] = append(c.Rec[st], uint32(v))
	if c.Keep {
		c.Labels = append(c.Labels, label)
	}
	return v
}

// Intn is Choose with a generic label.
func (c *Chooser) Intn(n int, label string) int { return c.Choose(n, label) }

// Range returns a value in [lo,hi].
func (c *Chooser) Range(lo, hi int, label string) int {
	if hi <= lo {
		return lo
	}
	return lo + c.Choose(hi-lo+1, label)
}

// Chance is true with probability num/den; the all-zero trace gives false.
func (c *Chooser) Chance(num, den int, label string) bool {
	if num <= 0 {
		return false
	}
	return c.Choose(den, label) >= den-num
}

// Weighted picks an index with the given weights; index 0 is the "simplest".
func (c *Chooser) Weighted(weights []int, label string) int {
	total := 0
	for _, w := range weights {
		total += w
	}
	if total <= 0 {
		return 0
	}
	v := c.Choose(total, label)
	for i, w := range weights {
		if v < w {
			return i
		}
		v -= w
	}
	return len(weights) - 1
}

// Used is the number of answers consumed so far.
func (c *Chooser) Used() int { return c.Rec.Len() }
