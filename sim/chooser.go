package sim

import (
	"math/rand/v2"
)

// Chooser is the single source of nondeterminism of a run (DESIGN.md 2.1).
// In search mode answers come from a PRNG seeded from (VERIF_SEED, run index);
// in replay mode from a recorded trace (missing answers are 0, out-of-range
// answers are reduced modulo n). Every answer is recorded.
type Chooser struct {
	rng    *rand.Rand
	replay []uint32
	isRep  bool
	pos    int
	Rec    []uint32
	Labels []string // only when KeepLabels
	Keep   bool
}

func mix64(a, b uint64) uint64 {
	x := a*0x9E3779B97F4A7C15 ^ (b + 0xD1B54A32D192ED03)
	x ^= x >> 32
	x *= 0xD6E8FEB86659FD93
	x ^= x >> 32
	x *= 0xD6E8FEB86659FD93
	x ^= x >> 32
	return x
}

// NewSearchChooser returns a PRNG-backed chooser for run index idx of seed.
func NewSearchChooser(seed uint64, idx uint64) *Chooser {
	return &Chooser{rng: rand.New(rand.NewPCG(mix64(seed, idx), mix64(idx, seed^0xabcdef)))}
}

// NewReplayChooser returns a chooser answering from trace.
func NewReplayChooser(trace []uint32) *Chooser {
	return &Chooser{replay: trace, isRep: true}
}

// Choose returns a value in [0,n).
func (c *Chooser) Choose(n int, label string) int {
	if n <= 1 {
		return 0
	}
	var v int
	if c.isRep {
		if c.pos < len(c.replay) {
			v = int(c.replay[c.pos] % uint32(n))
		}
		c.pos++
	} else {
		v = c.rng.IntN(n)
	}
	c.Rec = append(c.Rec, uint32(v))
	if c.Keep {
		c.Labels = append(c.Labels, label)
	}
	return v
}

// Intn is Choose with a generic label.
func (c *Chooser) Intn(n int, label string) int { return c.Choose(n, label) }

// Range returns a value in [lo,hi].
func (c *Chooser) Range(lo, hi int, label string) int {
	if hi <= lo {
		return lo
	}
	return lo + c.Choose(hi-lo+1, label)
}

// Chance is true with probability num/den; the all-zero trace gives false.
func (c *Chooser) Chance(num, den int, label string) bool {
	if num <= 0 {
		return false
	}
	return c.Choose(den, label) >= den-num
}

// Weighted picks an index with the given weights; index 0 is the "simplest".
func (c *Chooser) Weighted(weights []int, label string) int {
	total := 0
	for _, w := range weights {
		total += w
	}
	if total <= 0 {
		return 0
	}
	v := c.Choose(total, label)
	for i, w := range weights {
		if v < w {
			return i
		}
		v -= w
	}
	return len(weights) - 1
}

// Used is the number of answers consumed so far.
func (c *Chooser) Used() int { return len(c.Rec) }
