package sim

import (
	"bytes"
	"context"
	"errors"
	"fmt"
	"io"
	"log/slog"
	"net/http"
	"slices"
	"strings"

	sse "github.com/tmaxmax/go-sse"
)

// Session world (DESIGN.md C16): a recording, fault-injecting
// http.ResponseWriter of a chosen shape, a recording Provider, the real
// Upgrade / Session / Server.ServeHTTP. Fault enumeration: every position of
// the recorded Write/Flush call log is failed in turn.

type rwCall struct {
	Kind        string // "write", "flush", "writeheader"
	Data        []byte
	Err         error
	ContentType []string // header snapshot at the call
	Code        int
}

// rwCore records and injects; the shapes below expose different method sets.
type rwCore struct {
	header  http.Header
	calls   []rwCall
	failAt  int // index into the write/flush call sequence (-1: never)
	failErr error
	ops     int
	status  int
}

func (c *rwCore) Header() http.Header { return c.header }

func (c *rwCore) WriteHeader(code int) {
	if c.status == 0 {
		c.status = code
	}
	c.calls = append(c.calls, rwCall{Kind: "writeheader", Code: code, ContentType: append([]string(nil), c.header["Content-Type"]...)})
}

func (c *rwCore) inject() error {
	idx := c.ops
	c.ops++
	if idx == c.failAt {
		return c.failErr
	}
	return nil
}

func (c *rwCore) Write(p []byte) (int, error) {
	err := c.inject()
	call := rwCall{Kind: "write", Data: append([]byte(nil), p...), Err: err, ContentType: append([]string(nil), c.header["Content-Type"]...)}
	if err != nil {
		call.Data = nil
	}
	c.calls = append(c.calls, call)
	if err != nil {
		return 0, err
	}
	return len(p), nil
}

func (c *rwCore) flush(canFail bool) error {
	var err error
	if canFail {
		err = c.inject()
	} else {
		c.ops++
	}
	c.calls = append(c.calls, rwCall{Kind: "flush", Err: err, ContentType: append([]string(nil), c.header["Content-Type"]...)})
	return err
}

type rwFlusher struct{ *rwCore }

func (w rwFlusher) Flush() { _ = w.flush(false) }

type rwFlushError struct{ *rwCore }

func (w rwFlushError) FlushError() error { return w.flush(true) }

type rwBoth struct{ *rwCore }

func (w rwBoth) Flush()            { _ = w.flush(true) }
func (w rwBoth) FlushError() error { return w.flush(true) }

type rwPlain struct{ *rwCore }

type rwWrapped struct {
	http.ResponseWriter // only the three basic methods are promoted through the interface
	inner               http.ResponseWriter
}

func (w rwWrapped) Unwrap() http.ResponseWriter { return w.inner }

type basicOnly struct{ rw http.ResponseWriter }

func (b basicOnly) Header() http.Header         { return b.rw.Header() }
func (b basicOnly) Write(p []byte) (int, error) { return b.rw.Write(p) }
func (b basicOnly) WriteHeader(code int)        { b.rw.WriteHeader(code) }

var rwShapes = []string{"Flusher", "FlushError", "Flusher+FlushError", "wrapped once", "wrapped twice", "no flush support"}

func buildRW(core *rwCore, shape int) (rw http.ResponseWriter, canFailFlush bool, flushable bool) {
	switch shape {
	case 0:
		return rwFlusher{core}, false, true
	case 1:
		return rwFlushError{core}, true, true
	case 2:
		return rwBoth{core}, true, true
	case 3:
		inner := rwFlushError{core}
		return rwWrapped{basicOnly{inner}, inner}, true, true
	case 4:
		inner := rwFlusher{core}
		mid := rwWrapped{basicOnly{inner}, inner}
		return rwWrapped{basicOnly{mid}, mid}, false, true
	default:
		return rwPlain{core}, false, false
	}
}

type sessOp struct {
	flush bool
	msg   *sse.Message
	desc  string
	enc   []byte
}

type recProvider struct {
	subs    []sse.Subscription
	subErr  error
	during  func(sub sse.Subscription) error
	pubs    int
	shut    int
	ctxSeen context.Context
}

func (p *recProvider) Subscribe(ctx context.Context, sub sse.Subscription) error {
	p.subs = append(p.subs, sub)
	p.ctxSeen = ctx
	if p.during != nil {
		if err := p.during(sub); err != nil {
			return err
		}
	}
	return p.subErr
}
func (p *recProvider) Publish(m *sse.Message, topics []string) error { p.pubs++; return nil }
func (p *recProvider) Shutdown(ctx context.Context) error            { p.shut++; return nil }

func runSessionWorld(rc *RunCtx) (out *Outcome) {
	o := newOutcome()
	out = o // also when a panic inside go-sse is recovered below
	ch := rc.Ch
	var log []string
	logf := func(format string, a ...any) { log = append(log, fmt.Sprintf(format, a...)) }
	defer func() {
		if p := recover(); p != nil {
			o.violate("C16", "panic", "panic: %v | %s", p, strings.Join(log, "; "))
		}
		h := newHasher()
		for _, l := range log {
			h.str(l)
		}
		o.Key = uint64(h)
		o.LogHash = uint64(h)
		if rc.KeepLog {
			o.Log = log
		}
		if len(log) > 14 {
			log = log[:14]
		}
		o.Sample = map[string]any{"steps": log}
	}()
	if ch.Chance(1, 3, "ServeHTTP scenario") {
		runServeHTTP(o, ch, logf)
		return o
	}

	shape := ch.Intn(len(rwShapes)-1, "writer shape") // flushable shapes
	logf("writer shape: %s", rwShapes[shape])
	var ops []sessOp
	for i := 0; i < 8 && ch.Chance(4, 5, "more session ops"); i++ {
		if ch.Chance(1, 3, "flush op") {
			ops = append(ops, sessOp{flush: true, desc: "Flush"})
			continue
		}
		m, mops := genMessage(ch)
		enc, _ := m.MarshalText()
		ops = append(ops, sessOp{msg: m, desc: fmt.Sprintf("Send(%+v)", mops), enc: enc})
	}
	for _, op := range ops {
		logf("%s", op.desc)
	}
	failDisguise := drawDisguise(ch, "writer failure") // the first write or flush error is returned as itself, whatever it matches
	presetCT := ""
	if ch.Chance(1, 5, "Content-Type already set before the upgrade") {
		presetCT = []string{"application/json", "text/plain; charset=utf-8", "text/event-stream; charset=utf-8"}[ch.Intn(3, "preset content type")]
		logf("Content-Type preset to %q", presetCT)
		o.probe("Content-Type already set before the first Send")
	}
	// run(failAt) executes the sequence against a fresh writer and checks the call log
	run := func(failAt int) (calls int) {
		core := &rwCore{header: http.Header{}, failAt: failAt, failErr: newInjectedAs(fmt.Sprintf("writer op#%d", failAt), failDisguise)}
		if presetCT != "" {
			core.header.Set("Content-Type", presetCT) // a middleware's default, or one prepared for an error body
		}
		rw, canFailFlush, _ := buildRW(core, shape)
		req, _ := http.NewRequest(http.MethodGet, "http://sim.invalid/", nil)
		sess, err := sse.Upgrade(rw, req)
		if err != nil {
			o.violate("C16", "upgrade", "Upgrade on a %s writer failed: %v", rwShapes[shape], err)
			return 0
		}
		var wantBody []byte
		failed := false
		where := func(i int) string {
			return fmt.Sprintf("writer=%s failAt=%d op#%d %s | ops: %s", rwShapes[shape], failAt, i, ops[i].desc, strings.Join(log[1:], "; "))
		}
		for i, op := range ops {
			before := len(core.calls)
			var err error
			if op.flush {
				err = sess.Flush()
			} else {
				err = sess.Send(op.msg)
			}
			newCalls := core.calls[before:]
			var injected error
			for _, c := range newCalls {
				if c.Err != nil {
					injected = c.Err
					break
				}
			}
			// the first injected error is what the caller gets
			if injected != nil && !errors.Is(err, injected) {
				o.violate("C16", "error-returned", "%s: the writer failed with %v but the caller got %v", where(i), injected, err)
				return
			}
			if injected == nil && err != nil {
				o.violate("C16", "error-returned", "%s: returned %v without any writer failure", where(i), err)
				return
			}
			// body accounting
			var wrote []byte
			for _, c := range newCalls {
				if c.Kind == "write" && c.Err == nil {
					wrote = append(wrote, c.Data...)
				}
			}
			if !op.flush {
				if err == nil {
					if !bytes.Equal(wrote, op.enc) {
						o.violate("C16", "body", "%s: wrote %q, want the message's encoding %q", where(i), wrote, op.enc)
						return
					}
				} else if !bytes.HasPrefix(op.enc, wrote) {
					o.violate("C16", "body", "%s: failing Send wrote %q, not a prefix of %q", where(i), wrote, op.enc)
					return
				}
			} else if len(wrote) > 0 {
				o.violate("C16", "body", "%s: Flush wrote %q", where(i), wrote)
				return
			}
			wantBody = append(wantBody, wrote...)
			// Flush pushes everything sent so far: after a nil Flush the last call that touched the wire is a flush
			if op.flush && err == nil {
				lastWrite, lastFlush := -1, -1
				for k, c := range core.calls {
					if c.Kind == "write" && c.Err == nil && len(c.Data) > 0 {
						lastWrite = k
					}
					if c.Kind == "flush" && c.Err == nil {
						lastFlush = k
					}
				}
				if lastFlush < lastWrite || lastFlush < 0 {
					o.violate("C16", "flush-pushes", "%s: Flush returned nil but written bytes remain unflushed (last write call %d, last flush call %d)", where(i), lastWrite, lastFlush)
					return
				}
			}
			if err != nil {
				failed = true
			}
			_ = canFailFlush
		}
		_ = failed
		// header discipline over the whole log
		firstByte := -1
		for k, c := range core.calls {
			if c.Kind == "write" && len(c.Data) > 0 && c.Err == nil {
				firstByte = k
				break
			}
		}
		// net/http sends the response head at the first Flush or Write, once: whatever Content-Type
		// the header map holds at that call is what the client gets
		for k, c := range core.calls {
			if (c.Kind == "flush" || c.Kind == "write") && c.Err == nil {
				if len(c.ContentType) != 1 || c.ContentType[0] != "text/event-stream" {
					o.violate("C16", "header-at-commit", "writer=%s failAt=%d: the response head is committed by call %d (%s) while Content-Type is %q | ops: %s", rwShapes[shape], failAt, k, c.Kind, c.ContentType, strings.Join(log[1:], "; "))
					return
				}
				break
			}
		}
		if firstByte >= 0 {
			flushedHeader := false
			for k := 0; k < firstByte; k++ {
				c := core.calls[k]
				if c.Kind == "flush" && c.Err == nil && len(c.ContentType) == 1 && c.ContentType[0] == "text/event-stream" {
					flushedHeader = true
				}
			}
			if !flushedHeader {
				o.violate("C16", "header-before-body", "writer=%s failAt=%d: the first body byte was written before a successful flush with Content-Type text/event-stream | ops: %s", rwShapes[shape], failAt, strings.Join(log[1:], "; "))
				return
			}
			for k := firstByte; k < len(core.calls); k++ {
				ct := core.calls[k].ContentType
				if len(ct) != 1 || ct[0] != "text/event-stream" {
					o.violate("C16", "header-once", "writer=%s failAt=%d: Content-Type is %q at call %d after the stream started", rwShapes[shape], failAt, ct, k)
					return
				}
			}
		}
		return core.ops
	}
	total := run(-1)
	if len(o.Violations) > 0 {
		return o
	}
	points := 0
	for k := 0; k < total && len(o.Violations) == 0; k++ {
		run(k)
		points++
		o.fault("ResponseWriter fails at a Write/Flush call")
	}
	o.Probes["fail points enumerated"] += points
	o.Nontrivial = total >= 2
	sh := newHasher()
	sh.int(shape)
	sh.int(total)
	o.States = append(o.States, uint64(sh))
	return o
}

// runServeHTTP checks Server.ServeHTTP against a recording Provider: one to
// three requests are served by the same Server, one after the other (state
// carried from one request to the next is part of what is checked).
func runServeHTTP(o *Outcome, ch *Chooser, logf func(string, ...any)) {
	prov := &recProvider{}
	srv := &sse.Server{Provider: prov}
	// per-request plan consulted by the server's callbacks
	var (
		onSession    int
		sessTopics   []string
		rejectWrites bool
	)
	srv.OnSession = func(w http.ResponseWriter, r *http.Request) ([]string, bool) {
		switch onSession {
		case 1:
			return sessTopics, true
		case 2:
			return nil, true
		case 3:
			if rejectWrites {
				w.WriteHeader(http.StatusForbidden)
				_, _ = w.Write([]byte("forbidden"))
			}
			return []string{"ignored"}, false
		}
		return nil, true
	}
	if ch.Chance(1, 3, "server without OnSession") {
		srv.OnSession = nil
	}
	switch ch.Weighted([]int{4, 2, 1}, "server logger") {
	case 1: // logging must not change what is written or to whom the session is subscribed
		lg := slog.New(slog.NewTextHandler(io.Discard, nil))
		srv.Logger = func(*http.Request) *slog.Logger { return lg }
		o.probe("server with a logger")
	case 2:
		srv.Logger = func(*http.Request) *slog.Logger { return nil }
	}
	for reqN := 0; reqN < 3 && (reqN == 0 || ch.Chance(1, 2, "another request")) && len(o.Violations) == 0; reqN++ {
		serveOne(o, ch, logf, srv, prov, reqN, &onSession, &sessTopics, &rejectWrites)
	}
}

func serveOne(o *Outcome, ch *Chooser, logf func(string, ...any), srv *sse.Server, prov *recProvider, reqN int, onSession *int, sessTopics *[]string, rejectWritesP *bool) {
	shape := ch.Intn(len(rwShapes), "writer shape")
	core := &rwCore{header: http.Header{}, failAt: -1}
	rw, _, flushable := buildRW(core, shape)
	logf("request %d: ServeHTTP writer shape: %s", reqN+1, rwShapes[shape])
	req, _ := http.NewRequest(http.MethodGet, "http://sim.invalid/", nil)
	// Last-Event-ID header
	var wantID sse.EventID
	switch ch.Weighted([]int{3, 2, 4, 2, 2}, "last-event-id header") {
	case 0:
		logf("Last-Event-ID absent")
	case 1:
		req.Header["Last-Event-Id"] = []string{""}
		logf("Last-Event-ID empty")
	case 2:
		vals := []string{"42", "a b", "é", "id: x", " lead"}
		v := vals[ch.Intn(len(vals), "header value")]
		req.Header["Last-Event-Id"] = []string{v}
		wantID = sse.ID(v)
		logf("Last-Event-ID %q", v)
	case 3:
		vals := []string{"a\nb", "x\r", "\r\ny"}
		v := vals[ch.Intn(len(vals), "invalid header value")]
		req.Header["Last-Event-Id"] = []string{v}
		logf("Last-Event-ID invalid %q", v)
	case 4:
		req.Header["Last-Event-Id"] = []string{"first", "second"}
		wantID = sse.ID("first")
		logf("Last-Event-ID two values")
	}
	wantTopics := []string{sse.DefaultTopic}
	reject, rejectWrites := false, false
	*onSession = 0
	if srv.OnSession != nil {
		switch ch.Weighted([]int{3, 3, 2, 2}, "OnSession") {
		case 0:
			*onSession = 2
			logf("OnSession no topics")
		case 1:
			t := genTopics(ch, "session")
			wantTopics = t
			*onSession = 1
			*sessTopics = t
			logf("OnSession topics %s", fmtTopics(t))
		case 2:
			// "DefaultTopic if none": none is a nil slice as much as an empty one (e.g. a filtered list)
			*onSession = 1
			*sessTopics = make([]string, 0, 4)
			logf("OnSession empty, non-nil topics")
			o.probe("OnSession returned an empty non-nil topic list")
		case 3:
			reject = true
			rejectWrites = ch.Chance(1, 2, "rejection writes a response")
			*onSession = 3
			*rejectWritesP = rejectWrites
			logf("OnSession rejects (writes=%v)", rejectWrites)
		}
	} else {
		logf("OnSession nil")
	}
	prov.subs = nil
	prov.subErr = nil
	prov.during = nil
	subFails := ch.Chance(1, 4, "Subscribe fails")
	if subFails {
		prov.subErr = newInjectedAs("provider refuses", drawDisguise(ch, "refusal"))
		logf("Subscribe returns the error %v", prov.subErr)
	}
	var sent *sse.Message
	if !subFails && ch.Chance(1, 2, "provider sends a message") {
		sent = &sse.Message{}
		sent.AppendData("hello")
		prov.during = func(sub sse.Subscription) error {
			if err := sub.Client.Send(sent); err != nil {
				return err
			}
			return sub.Client.Flush()
		}
		logf("provider sends one message during Subscribe")
	}
	srv.ServeHTTP(rw, req)
	o.Nontrivial = true
	o.fault("ServeHTTP scenario")
	if reqN > 0 {
		o.probe("second or third request on the same server")
	}

	body := func() []byte {
		var b []byte
		for _, c := range core.calls {
			if c.Kind == "write" {
				b = append(b, c.Data...)
			}
		}
		return b
	}
	pfx := fmt.Sprintf("request %d: ", reqN+1)
	switch {
	case !flushable:
		if len(prov.subs) != 0 {
			o.violate("C16", "unsupported-writer", pfx+"a writer without flush support was subscribed")
		}
		if core.status != http.StatusInternalServerError || len(body()) == 0 {
			o.violate("C16", "unsupported-writer", pfx+"writer without flush support: status %d body %q, want 500 with a message", core.status, body())
		}
		o.probe("writer that cannot flush")
	case reject:
		if len(prov.subs) != 0 {
			o.violate("C16", "rejected-session", pfx+"OnSession rejected the request but the provider was subscribed")
		}
		want := ""
		if rejectWrites {
			want = "forbidden"
		}
		if string(body()) != want || (rejectWrites && core.status != http.StatusForbidden) || (!rejectWrites && core.status != 0) {
			o.violate("C16", "rejected-session", pfx+"OnSession rejected the request (wrote %q): response has status %d body %q - go-sse must write nothing of its own", want, core.status, body())
		}
		o.probe("rejected session")
	default:
		if len(prov.subs) != 1 {
			o.violate("C16", "subscription", pfx+"provider was subscribed %d times", len(prov.subs))
			return
		}
		sub := prov.subs[0]
		if sub.LastEventID != wantID {
			o.violate("C16", "last-event-id", pfx+"provider got LastEventID %q (set=%v), want %q (set=%v)", sub.LastEventID.String(), sub.LastEventID.IsSet(), wantID.String(), wantID.IsSet())
		}
		if !slices.Equal(sub.Topics, wantTopics) {
			o.violate("C16", "topics", pfx+"provider got topics %s, want %s", fmtTopics(sub.Topics), fmtTopics(wantTopics))
		}
		if _, ok := sub.Client.(*sse.Session); !ok {
			o.violate("C16", "subscription", pfx+"provider got a %T as client, want the session", sub.Client)
		}
		if subFails {
			if core.status != http.StatusInternalServerError || !strings.Contains(string(body()), prov.subErr.Error()) {
				o.violate("C16", "subscribe-error", pfx+"Subscribe failed before anything was sent: status %d body %q, want 500 with the error message", core.status, body())
			}
			o.probe("Subscribe error before anything was sent")
		} else if sent != nil {
			enc, _ := sent.MarshalText()
			if !bytes.Equal(body(), enc) {
				o.violate("C16", "body", pfx+"provider sent one message: body %q, want %q", body(), enc)
			}
			o.probe("message sent through the session")
		} else if len(body()) != 0 || core.status != 0 {
			o.violate("C16", "body", pfx+"nothing was sent but the response has status %d body %q", core.status, body())
		}
	}
}

func init() {
	register(&World{
		Name: "session", Level: "fault_enumeration",
		Rule: "two scenario kinds. (a) Session: a ResponseWriter shape (Flusher / FlushError / both / wrapped once or twice via Unwrap) and a sequence of up to 8 Send/Flush calls over generated messages (incl. lines of 4 KiB and 64 KiB), optionally with a Content-Type already present in the header map; the fault-free Write/Flush call log is recorded and then EVERY position of it is failed in turn; the call log is checked against the protocol (Content-Type right at the call that commits the response head, header before first byte and flushed, body = encodings, Flush pushes everything, first error returned). " +
			"(b) ServeHTTP with a recording Provider: Last-Event-ID header values (absent, empty, valid, multi-line, several), OnSession results (nil, topics, none, an empty non-nil list, reject with/without writing), a server Logger, writers that cannot flush, Subscribe failing with plain or sentinel-matching errors, one to three requests on the same Server. Non-trivial: at least two writer calls or a ServeHTTP scenario; distinct = distinct scenarios.",
		Real:        []string{"sse.Upgrade, sse.Session (Send, Flush, doUpgrade), getResponseWriter", "sse.Server.ServeHTTP, getSubscription", "sse.Message.WriteTo"},
		Stub:        []string{"recording, fault-injecting http.ResponseWriter of a chosen shape", "recording Provider"},
		Assumptions: []string{"single caller; the simulator dimension is the failing writer only (stated in DESIGN.md)", "'set only once' is observed as: the header holds exactly text/event-stream at every call after the stream started"},
		MustProbes:  []string{"fail points enumerated", "writer that cannot flush", "rejected session", "Subscribe error before anything was sent", "message sent through the session", "second or third request on the same server"},
		Run:         runSessionWorld,
	}, "C16")
}
