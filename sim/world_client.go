package sim

import (
	"bufio"
	"bytes"
	"context"
	"errors"
	"fmt"
	"io"
	"net"
	"net/http"
	"strconv"
	"strings"
	"sync"
	"syscall"
	"testing"
	"testing/synctest"
	"time"

	sse "github.com/tmaxmax/go-sse"
	"github.com/tmaxmax/go-sse/verifhook"
)

// Client world (DESIGN.md 3): one real Client/Connection on the fake clock, a
// scripted transport (per attempt: dial failure | rejected response | stream
// served chunk by chunk and ended cleanly, with an error, or hanging until
// cancelled), a canceller, and subscriber tasks adding and removing callbacks
// while events are being delivered.

// allTypes marks a subscribe-to-all callback in the world's own bookkeeping (never passed to go-sse).
const allTypes = "(all)"

type attemptKind int

const (
	attDialFail attemptKind = iota
	attReject
	attStream
)

type attemptRec struct {
	n           int
	retrySlot   int // sequence number reserved for the retry that preceded this attempt
	kind        attemptKind
	start       time.Duration // simulated instant RoundTrip was called
	startSeq    int
	connected   time.Duration // instant the response was returned (streams)
	ended       time.Duration
	header      http.Header
	lastID      []string
	body        []byte
	bodyErr     error
	bodyUnsent  bool // the transport closed the request body without reading it (the dial failed first)
	stream      []byte // bytes actually offered (up to the end offset)
	endKind     int    // 0 EOF, 1 error, 2 hang until cancelled
	endErr      error
	delivered   int // bytes handed to the parser
	reads       []readRec
	status      int
	ctype       string
	dialErr     error
	ref         RefResult
	initialID   string
	tooLong     bool // an event beyond the scanner's limit ended this connection (bufio.ErrTooLong)
	cancelledAt int  // delivered bytes when cancellation was seen by Read (-1: not)
	endSeq      int  // world sequence number when the next attempt started or Connect returned
}

type readRec struct {
	callSeq, retSeq int
	off             int // offset after the read
	at              time.Duration
	err             error
}

type callRec struct {
	invoked, returned int
	at, retAt         time.Duration
	err               error
}

type retryRec struct {
	at  time.Duration
	seq int
	d   time.Duration
	err error
}

type cbRec struct {
	id          int
	typ         string // subscription type; allTypes for a subscribe-to-all callback
	all         bool
	subInvoked  int
	subReturned int
	remInvoked  int
	remReturned int
	remover     sse.EventCallbackRemover
	seen        []int // event indices in invocation order (filled in by the oracle)
	seenEv      []RefEvent
	seenSeq     []int
}

type evRec struct {
	idx     int
	ev      RefEvent
	attempt int
	// dispatch bracket
	openSeq  int // the Read that delivered the end of its block returned
	closeSeq int // the next Read was called (or Connect returned)
}

type clientWorld struct {
	rc  *RunCtx
	o   *Outcome
	ch  *Chooser
	sim *verifhook.Sim
	seq int

	cfg        sse.Backoff
	effective  sse.Backoff // after documented defaults
	jitterOff  bool
	validator  int // 0 default, 1 custom ok, 2 custom rejects at attempt k
	rejectAt   int
	rejectErr  error
	bodyKind   int // 0 none, 1 NoBody, 2 replayable, 3 no GetBody, 4 GetBody fails at k, 5 replayable, each body unusable once closed (a file)
	getBodyN   int
	bodyReuse  string // set when one body instance was handed to the transport in two different attempts
	getBodyErr error
	failGetAt  int
	bodyBytes  []byte
	maxAtt     int
	bufSize    int
	limit      int // effective maximum event size of the connection's scanner

	ctx                         context.Context
	cancel                      context.CancelFunc
	cancelSeq                   int
	cancelAt                    time.Duration
	cancelEvents                int // plan 4: a callback cancels when this many callback invocations have been made
	cancelPlan                  int // 0 none,1 after attempts,2 at byte offset in attempt,3 at time,4 from inside a callback
	cancelAttempt, cancelOffset int
	cancelTime                  time.Duration

	conn       *sse.Connection
	attempts   []*attemptRec
	retries    []retryRec
	events     []*evRec // as seen by the observer callback (when there is one)
	refEvs     []*evRec // derived from the reference interpreter and the Read log: needs no observer
	noObs      bool     // this run has no always-subscribed observer (so "nobody subscribed" states are reachable)
	dispatched int      // events seen by any callback so far (pacing of subscriber tasks)
	cbs        []*cbRec
	cbTasks    int
	evSeq      int

	// Connect may be called several times on one Connection (an application driving reconnection
	// itself); connect* below describe the first invocation and the last return, calls every call
	nCalls         int
	callGaps       []time.Duration
	preDelay       time.Duration // between NewConnection and the first Connect
	priorConns     int           // NewConnection calls made on the same Client before this one
	calls          []*callRec
	callIdx        int  // index of the call a per-call oracle is looking at
	b1Unclear      bool // per-call view: an earlier call's connection carried a retry field
	getBodyFailSeq int
	cause          error       // the request context was made with WithCancelCause and is cancelled with this cause
	redirect       *attemptRec // the attempt whose first response was a redirect net/http is about to follow
	noOnRetry      bool        // the Client has no OnRetry: waits are taken from the attempts' instants
	useDefault     bool        // the connection is made with the package-level NewConnection (DefaultClient)
	lateEdits      bool        // the caller changes its Client and request after NewConnection

	connectInvoked, connectReturned int
	connectErr                      error
	connectRetAt                    time.Duration
	dataSeq                         int
	lastDispatchedID                string // reference view
	connectAt                       time.Duration
}

func (w *clientWorld) tick() int { w.seq++; return w.seq }

// ---------------------------------------------------------------- generation

func (w *clientWorld) genBackoff() {
	ch := w.ch
	b := sse.Backoff{}
	prop := w.rc.Prop
	switch ch.Weighted([]int{2, 6}, "initial interval") {
	case 0: // default
	case 1:
		b.InitialInterval = []time.Duration{time.Millisecond, 10 * time.Millisecond, 100 * time.Millisecond, time.Second, 7 * time.Second}[ch.Intn(5, "initial interval value")]
	}
	switch ch.Weighted([]int{2, 3, 3}, "multiplier") {
	case 0:
	case 1:
		b.Multiplier = 1
	case 2:
		b.Multiplier = []float64{1.25, 2, 3, 10, 100}[ch.Intn(5, "multiplier value")]
	}
	switch ch.Weighted([]int{2, 4, 3}, "jitter") {
	case 0:
	case 1:
		b.Jitter = -1
	case 2:
		b.Jitter = []float64{0.1, 0.25, 0.9}[ch.Intn(3, "jitter value")]
	}
	if ch.Chance(1, 2, "max interval") {
		// "If <=0 = the wait time can infinitely grow"
		b.MaxInterval = []time.Duration{50 * time.Millisecond, time.Second, 10 * time.Second, -time.Second}[ch.Intn(4, "max interval value")]
	}
	if ch.Chance(1, 3, "max elapsed") {
		// "If <=0 = no limit"
		b.MaxElapsedTime = []time.Duration{100 * time.Millisecond, 2 * time.Second, 30 * time.Second, 10 * time.Minute, -time.Minute}[ch.Intn(5, "max elapsed value")]
	}
	switch ch.Weighted([]int{3, 1, 5}, "max retries") {
	case 0:
		b.MaxRetries = 0
	case 1:
		b.MaxRetries = -1
	case 2:
		b.MaxRetries = ch.Range(1, 5, "max retries value")
	}
	if prop == "C13" {
		b.MaxRetries = ch.Range(0, 2, "max retries value")
	}
	if ch.Chance(1, 10, "package-level NewConnection") {
		// sse.NewConnection uses DefaultClient: its documented back-off, with our transport put in for the occasion
		w.useDefault = true
		b = sse.Backoff{InitialInterval: 500 * time.Millisecond, Multiplier: 1.5, Jitter: 0.5}
	}
	w.cfg = b
	e := b
	if e.InitialInterval <= 0 {
		e.InitialInterval = 500 * time.Millisecond
	}
	if e.Multiplier < 1 {
		e.Multiplier = 1.5
	}
	switch {
	case e.Jitter == -1:
		w.jitterOff = true
		e.Jitter = 0
	case e.Jitter <= 0 || e.Jitter >= 1:
		e.Jitter = 0.5
	}
	w.effective = e
}

// genClientStream builds a stream for one attempt.
func (w *clientWorld) genClientStream() []byte {
	ch := w.ch
	prop := w.rc.Prop
	if (prop == "C11" || prop == "C10") && ch.Chance(1, 4, "free-form stream") {
		return genStream(ch)
	}
	var sb strings.Builder
	eols := []string{"\n", "\n", "\r\n", "\r"}
	eol := eols[ch.Intn(len(eols), "eol style")]
	for i := 0; i < 8 && ch.Chance(3, 4, "more events"); i++ {
		w.dataSeq++
		if ch.Chance(1, 6, "comment line") {
			sb.WriteString(": keep-alive" + eol)
		}
		if ch.Chance(1, 3, "id field") {
			ids := []string{"i" + strconv.Itoa(w.dataSeq), "", "a\x00b", "same", "x y", "07", "a\x01b" + strconv.Itoa(w.dataSeq), "t\tb", "q+r%41=" + strconv.Itoa(w.dataSeq)}
			sb.WriteString("id: " + ids[ch.Weighted([]int{6, 2, 1, 2, 1, 1, 1, 1, 1}, "id value")] + eol)
		}
		if ch.Chance(1, 3, "event field") {
			types := []string{"a", "b", "", "message", "*", "all"}
			sb.WriteString("event: " + types[ch.Intn(len(types), "event type")] + eol)
		}
		if (prop == "C12" || ch.Chance(1, 6, "retry sometimes")) && ch.Chance(1, 3, "retry field") {
			vals := []string{"1", "25", "300", "2000", "60000", "1000000000000", "abc", "", "-5", "+7", "1.5", "007", "0000000000000000040", "00000000000000000000000000000300"}
			sb.WriteString("retry: " + vals[ch.Intn(len(vals), "retry value")] + eol)
		}
		if (prop == "C13" && ch.Chance(11, 12, "data field")) || (prop != "C13" && ch.Chance(5, 6, "data field")) {
			sb.WriteString("data: e" + strconv.Itoa(w.dataSeq) + eol)
			if ch.Chance(1, 5, "second data line") {
				sb.WriteString("data: more" + eol)
			}
		}
		if ch.Chance(1, 12, "large data line") {
			// makes the scanner grow and compact its buffer while earlier events' strings are still in use
			sb.WriteString("data: " + strings.Repeat("L", []int{1200, 2500, 5000}[ch.Intn(3, "large size")]) + eol)
		}
		if ch.Chance(1, 8, "unknown field") {
			sb.WriteString("foo: bar" + eol)
		}
		sb.WriteString(eol)
		if ch.Chance(1, 8, "extra blank line") {
			sb.WriteString(eol)
		}
	}
	// tail: nothing, comment, unknown field, partial line, pending terminated fields
	switch ch.Weighted([]int{6, 1, 1, 2, 2, 1}, "stream tail") {
	case 1:
		sb.WriteString(": bye" + eol)
	case 2:
		sb.WriteString("foo: bar" + eol)
	case 3:
		w.dataSeq++
		sb.WriteString("data: e" + strconv.Itoa(w.dataSeq))
	case 4:
		w.dataSeq++
		sb.WriteString("id: t" + strconv.Itoa(w.dataSeq) + eol + "data: e" + strconv.Itoa(w.dataSeq) + eol)
	case 5:
		sb.WriteString(eol)
	}
	return []byte(sb.String())
}

func (w *clientWorld) generate() {
	ch := w.ch
	prop := w.rc.Prop
	w.genBackoff()
	w.maxAtt = ch.Range(2, 10, "attempt limit")
	if prop != "C13" && ch.Chance(1, 25, "very long history") {
		w.maxAtt = ch.Range(20, 40, "long attempt limit") // dozens of attempts on one connection
	}
	w.validator = ch.Weighted([]int{6, 2, 2, 2}, "validator")
	if w.useDefault {
		w.validator = 0
	}
	if w.validator == 2 {
		w.rejectAt = ch.Range(1, 4, "validator rejects attempt")
		// verdicts of any error type are permanent: also ones that look temporary or match a sentinel
		switch ch.Weighted([]int{3, 1, 1}, "validator verdict kind") {
		case 0:
			w.rejectErr = newInjected("validator verdict")
		case 1:
			w.rejectErr = &timeoutLikeError{what: "validator verdict"}
		case 2:
			w.rejectErr = newInjectedAs("validator verdict", disguises[ch.Intn(len(disguises), "verdict sentinel")])
		}
	}
	if prop == "C10" || ch.Chance(1, 4, "request body") {
		w.bodyKind = ch.Weighted([]int{2, 1, 4, 2, 2, 2}, "body kind")
		w.bodyBytes = []byte("payload-" + strconv.Itoa(ch.Intn(1000, "payload")))
		if w.bodyKind == 4 {
			w.failGetAt = ch.Range(1, 3, "GetBody fails at")
			// GetBody's own error ends Connect, whatever kind of error it is
			switch ch.Weighted([]int{3, 1, 1}, "GetBody error kind") {
			case 0:
				w.getBodyErr = newInjected("GetBody")
			case 1:
				w.getBodyErr = &timeoutLikeError{what: "GetBody"}
			case 2:
				w.getBodyErr = newInjectedAs("GetBody", disguises[ch.Intn(len(disguises), "GetBody error sentinel")])
			}
		}
	}
	if prop != "C13" {
		w.cancelPlan = ch.Weighted([]int{3, 2, 3, 2, 1}, "cancel plan")
	} else {
		w.cancelPlan = ch.Weighted([]int{3, 1, 1, 0, 2}, "cancel plan")
	}
	switch w.cancelPlan {
	case 4: // a callback cancels the request when it sees its k-th event (the usual way for an application to stop)
		w.cancelEvents = ch.Range(1, 4, "cancel from a callback after events")
	case 1:
		w.cancelAttempt = ch.Range(1, w.maxAtt, "cancel after attempts")
	case 2:
		w.cancelAttempt = ch.Range(1, 3, "cancel in attempt")
		w.cancelOffset = ch.Range(0, 40, "cancel at offset")
	case 3:
		w.cancelTime = []time.Duration{0, time.Millisecond, 300 * time.Millisecond, 5 * time.Second, time.Minute}[ch.Intn(5, "cancel time")]
	}
	w.nCalls = 1
	if prop != "C13" && ch.Chance(1, 3, "Connect called again after it returned") {
		w.nCalls = ch.Range(2, 3, "Connect calls")
		for i := 1; i < w.nCalls; i++ {
			w.callGaps = append(w.callGaps, []time.Duration{0, time.Millisecond, 3 * time.Second, time.Hour}[ch.Intn(4, "gap between Connect calls")])
		}
	}
	if ch.Chance(1, 6, "time passes between NewConnection and Connect") {
		w.preDelay = []time.Duration{time.Millisecond, 5 * time.Second, time.Hour}[ch.Intn(3, "delay before Connect")]
	}
	w.noOnRetry = w.bodyKind < 3 && ch.Chance(1, 5, "client without OnRetry")
	w.lateEdits = ch.Chance(1, 5, "caller edits client and request after NewConnection")
	if ch.Chance(1, 4, "client already used for other connections") {
		w.priorConns = ch.Range(1, 2, "earlier connections of the client")
	}
	if ch.Chance(1, 4, "connection buffer") {
		w.bufSize = 1 << 17
		if ch.Chance(1, 3, "small connection buffer") {
			// an event beyond the limit ends the connection with bufio.ErrTooLong: one more way for a
			// connection to end, retried like any other
			w.bufSize = 256
		}
	}
}

// ---------------------------------------------------------------- transport

// timeoutLikeError behaves like net/http's timeout errors: errors.Is(err,
// context.DeadlineExceeded) holds although no context of the caller expired.
type timeoutLikeError struct{ what string }

func (e *timeoutLikeError) Error() string   { return "injected: " + e.what + " timed out" }
func (e *timeoutLikeError) Timeout() bool   { return true }
func (e *timeoutLikeError) Temporary() bool { return true }
func (e *timeoutLikeError) Is(target error) bool {
	return target == context.DeadlineExceeded
}

type clientRT struct{ w *clientWorld }

type clientBody struct {
	w      *clientWorld
	a      *attemptRec
	end    int
	ended  bool
	closed bool
	slow   time.Duration
}

func (rt *clientRT) RoundTrip(req *http.Request) (*http.Response, error) {
	w := rt.w
	ch := w.ch
	var a *attemptRec
	followUp := w.redirect != nil
	if followUp {
		// net/http is following the redirect this attempt was answered with: still the same attempt
		a, w.redirect = w.redirect, nil
		if req.Body != nil {
			_, _ = io.ReadAll(req.Body)
			req.Body.Close()
		}
		w.sim.Logf("RoundTrip", "#%d redirected request %s", a.n, req.Method)
	} else {
		slot := w.tick()
		a = &attemptRec{n: len(w.attempts) + 1, retrySlot: slot, start: w.sim.Elapsed(), startSeq: w.tick(), header: req.Header.Clone(), cancelledAt: -1}
		if n := len(w.attempts); n > 0 && w.attempts[n-1].endSeq == 0 {
			w.attempts[n-1].endSeq = a.startSeq
		}
		a.lastID = req.Header.Values("Last-Event-ID")
		a.initialID = w.lastDispatchedID
		w.attempts = append(w.attempts, a)
		if req.Body != nil {
			if w.bodyKind >= 2 && a.n < w.maxAtt && w.rc.Prop != "C13" && ch.Chance(1, 6, "dial fails before the request body is sent") {
				// what net/http's transport does when it cannot get a connection: the body is closed, never read
				a.bodyUnsent = true
				req.Body.Close()
				w.o.probe("request body closed unread by a failing dial")
			} else {
				a.body, a.bodyErr = io.ReadAll(req.Body)
				req.Body.Close()
			}
		}
		w.sim.Logf("RoundTrip", "#%d Last-Event-ID=%q body=%q unsent=%v", a.n, a.lastID, a.body, a.bodyUnsent)
	}
	w.sim.YieldHere("RoundTrip")
	if err := w.transportCtxErr(); err != nil {
		a.kind = attDialFail
		a.dialErr = err
		a.ended = w.sim.Elapsed()
		return nil, err
	}
	if !followUp && a.bodyUnsent {
		a.kind = attDialFail
		a.dialErr = newInjected(fmt.Sprintf("dial #%d (body not sent)", a.n))
		w.o.fault("transport: dial failure")
		a.ended = w.sim.Elapsed()
		w.sim.Logf("RoundTrip", "#%d dial failure before the body was sent", a.n)
		return nil, a.dialErr
	}
	if !followUp && w.rc.Prop != "C13" && w.bodyKind != 4 && ch.Chance(1, 10, "attempt answered with a redirect first") {
		// http.Client follows it and calls RoundTrip again; to the connection this is one attempt
		codes := []int{http.StatusTemporaryRedirect, http.StatusPermanentRedirect, http.StatusMovedPermanently, http.StatusFound}
		if w.bodyKind == 3 {
			codes = codes[2:] // 307 / 308 need GetBody to re-send the body; net/http would hand the 3xx response back
		}
		code := codes[ch.Intn(len(codes), "redirect status")]
		w.redirect = a
		w.o.probe("attempt answered with a redirect that net/http follows")
		w.sim.Logf("RoundTrip", "#%d redirect %d", a.n, code)
		return &http.Response{StatusCode: code, Status: strconv.Itoa(code), Proto: "HTTP/1.1", ProtoMajor: 1, ProtoMinor: 1,
			Header: http.Header{"Location": []string{"http://sim.invalid/moved"}}, Body: http.NoBody, Request: req}, nil
	}
	last := a.n >= w.maxAtt
	kind := attStream
	if !last {
		kind = attemptKind(ch.Weighted([]int{3, 1, 6}, "attempt outcome"))
		if w.rc.Prop == "C13" {
			kind = attStream
		}
	}
	oddResponse := false
	if kind == attReject && w.validator == 3 {
		// NoopValidator: whatever the status and content type, the body is read as an event stream
		kind, oddResponse = attStream, true
		w.o.probe("NoopValidator accepts a response the default validator rejects")
	}
	a.kind = kind
	switch kind {
	case attDialFail:
		a.dialErr = newInjected(fmt.Sprintf("dial #%d", a.n))
		if ch.Chance(1, 5, "dial timeout") {
			a.dialErr = &timeoutLikeError{what: fmt.Sprintf("dial #%d", a.n)}
			w.o.probe("transport error that matches a context sentinel while the context is alive")
		}
		w.o.fault("transport: dial failure")
		if ch.Chance(1, 2, "dial takes time") {
			w.sim.Sleep("dial", []time.Duration{time.Millisecond, 200 * time.Millisecond, 3 * time.Second}[ch.Intn(3, "dial time")])
		}
		a.ended = w.sim.Elapsed()
		w.sim.Logf("RoundTrip", "#%d dial failure", a.n)
		return nil, a.dialErr
	case attReject:
		a.status, a.ctype = 200, "text/event-stream"
		if ch.Chance(1, 2, "bad status") {
			a.status = []int{204, 404, 500, 301}[ch.Intn(4, "status")]
		} else {
			a.ctype = []string{"text/plain", "", "application/json", "text/event-streamx"}[ch.Intn(4, "content type")]
		}
		w.o.fault("transport: rejected response (status / content type)")
		a.ended = w.sim.Elapsed()
		w.sim.Logf("RoundTrip", "#%d response %d %q", a.n, a.status, a.ctype)
		var rejBody io.ReadCloser = io.NopCloser(strings.NewReader("nope"))
		if ch.Chance(1, 2, "rejected response has a streaming body") {
			// a body that does not end by itself: a rejected response must be given up at once, not read
			rejBody = &hangingBody{w: w}
			w.o.probe("rejected response with a body that never ends")
		}
		return &http.Response{StatusCode: a.status, Status: strconv.Itoa(a.status), Proto: "HTTP/1.1", ProtoMajor: 1, ProtoMinor: 1,
			Header: http.Header{"Content-Type": []string{a.ctype}}, Body: rejBody, Request: req}, nil
	}
	// stream
	a.status = 200
	a.ctype = []string{"text/event-stream", "text/event-stream; charset=utf-8", "Text/Event-Stream"}[ch.Weighted([]int{6, 1, 1}, "content type form")]
	data := w.genClientStream()
	end := len(data)
	if ch.Chance(1, 3, "cut stream") {
		end = ch.Range(0, len(data), "cut offset")
	}
	a.stream = data[:end]
	a.endKind = ch.Weighted([]int{5, 3, 1}, "stream end")
	if last {
		a.endKind = 2
	}
	switch a.endKind {
	case 0:
		a.endErr = io.EOF
		w.o.fault("transport: stream ends cleanly")
	case 1:
		switch ch.Weighted([]int{4, 3, 1, 1, 1}, "read error kind") {
		case 0:
			a.endErr = newInjectedAs(fmt.Sprintf("read #%d at %d", a.n, end), drawDisguise(ch, "read error"))
		case 1:
			a.endErr = io.ErrUnexpectedEOF // what net/http reports for a connection cut inside the body
		case 2:
			a.endErr = &net.OpError{Op: "read", Net: "tcp", Err: syscall.ECONNRESET}
		case 3:
			// what http.Client.Timeout / ResponseHeaderTimeout report: matches context.DeadlineExceeded
			// although the request's own context is alive
			a.endErr = &timeoutLikeError{what: fmt.Sprintf("read #%d", a.n)}
			w.o.probe("transport error that matches a context sentinel while the context is alive")
		case 4:
			// a transport working with its own per-attempt context
			a.endErr = fmt.Errorf("transport attempt #%d aborted: %w", a.n, context.Canceled)
			w.o.probe("transport error that matches a context sentinel while the context is alive")
		}
		w.o.fault("transport: stream cut with a read error")
	case 2:
		w.o.fault("transport: stream hangs until cancelled")
	}
	if end == 0 && a.endKind == 0 && ch.Chance(1, 2, "empty response with http.NoBody") {
		// what net/http hands out for a response without a body (Content-Length: 0): a successful,
		// validated connection like any other, which ends at once
		a.connected, a.ended = w.sim.Elapsed(), w.sim.Elapsed()
		w.o.probe("accepted response with http.NoBody")
		w.sim.Logf("RoundTrip", "#%d empty response (http.NoBody)", a.n)
		return &http.Response{StatusCode: 200, Status: "200 OK", Proto: "HTTP/1.1", ProtoMajor: 1, ProtoMinor: 1,
			Header: http.Header{"Content-Type": []string{a.ctype}}, Body: http.NoBody, Request: req}, nil
	}
	body := &clientBody{w: w, a: a, end: end}
	if ch.Chance(1, 3, "slow stream") {
		body.slow = []time.Duration{time.Millisecond, 100 * time.Millisecond, 2 * time.Second, 40 * time.Second}[ch.Intn(4, "read latency")]
	}
	a.connected = w.sim.Elapsed()
	if oddResponse {
		if ch.Chance(1, 2, "bad status") {
			a.status = []int{204, 404, 500, 301}[ch.Intn(4, "status")]
		} else {
			a.ctype = []string{"text/plain", "", "application/json", "text/event-streamx"}[ch.Intn(4, "content type")]
		}
	}
	w.sim.Logf("RoundTrip", "#%d stream %q end=%d status=%d ctype=%q", a.n, a.stream, a.endKind, a.status, a.ctype)
	return &http.Response{StatusCode: a.status, Status: strconv.Itoa(a.status), Proto: "HTTP/1.1", ProtoMajor: 1, ProtoMinor: 1,
		Header: http.Header{"Content-Type": []string{a.ctype}}, Body: body, Request: req}, nil
}

func (b *clientBody) Close() error { b.closed = true; return nil }

// hangingBody delivers a few bytes and then blocks until the request is cancelled.
type hangingBody struct {
	w    *clientWorld
	sent bool
}

func (h *hangingBody) Close() error { return nil }

func (h *hangingBody) Read(p []byte) (int, error) {
	h.w.sim.YieldHere("rejected body.Read")
	if !h.sent && len(p) > 0 {
		h.sent = true
		p[0] = '.'
		return 1, nil
	}
	h.w.sim.WaitFor("rejected body never ends", func() bool { return h.w.ctx.Err() != nil })
	return 0, h.w.transportCtxErr()
}

func (b *clientBody) Read(p []byte) (n int, err error) {
	w, a := b.w, b.a
	rr := readRec{callSeq: w.tick()}
	// the bracket of every event dispatched since the previous Read closes here
	for _, e := range w.events {
		if e.closeSeq == 0 {
			e.closeSeq = rr.callSeq
		}
	}
	defer func() {
		rr.retSeq = w.tick()
		rr.off = a.delivered
		rr.at = w.sim.Elapsed()
		rr.err = err
		a.reads = append(a.reads, rr)
	}()
	w.sim.YieldHere("body.Read")
	ctx := w.ctx
	if b.slow > 0 && w.ch.Chance(1, 2, "latency before this read") {
		w.sim.Sleep("read latency", b.slow)
	}
	if w.cancelPlan == 2 && a.n == w.cancelAttempt && a.delivered >= w.cancelOffset && w.cancelSeq == 0 {
		w.doCancel("at byte offset")
	}
	if ctx.Err() != nil {
		if a.cancelledAt < 0 {
			a.cancelledAt = a.delivered
		}
		a.ended = w.sim.Elapsed()
		return 0, w.transportCtxErr()
	}
	if a.delivered >= b.end {
		if a.endKind == 2 {
			if certain := w.cancelPlan == 3 || (w.cancelPlan == 1 && w.cancelAttempt <= a.n); !certain && w.cancelSeq == 0 {
				// nobody else is certain to cancel: the run ends here
				w.sim.YieldHere("body hangs")
				w.doCancel("while the stream hangs")
			}
			w.sim.WaitFor("body hangs", func() bool { return ctx.Err() != nil })
			if a.cancelledAt < 0 {
				a.cancelledAt = a.delivered
			}
			a.ended = w.sim.Elapsed()
			return 0, w.transportCtxErr()
		}
		a.ended = w.sim.Elapsed()
		return 0, a.endErr
	}
	size := 0
	switch w.ch.Weighted([]int{4, 3, 3}, "chunk class") {
	case 0:
		size = b.end - a.delivered
	case 1:
		size = 1
	case 2:
		size = w.ch.Range(1, 16, "chunk")
	}
	if w.cancelPlan == 2 && a.n == w.cancelAttempt && w.cancelSeq == 0 && a.delivered+size > w.cancelOffset && w.cancelOffset > a.delivered {
		size = w.cancelOffset - a.delivered
	}
	if size > len(p) {
		size = len(p)
	}
	if size > b.end-a.delivered {
		size = b.end - a.delivered
	}
	copy(p, a.stream[a.delivered:a.delivered+size])
	a.delivered += size
	return size, nil
}

func (w *clientWorld) doCancel(why string) {
	if w.cancelSeq != 0 {
		return
	}
	w.cancelSeq = w.tick()
	w.cancelAt = w.sim.Elapsed()
	w.o.fault("context cancellation " + why)
	w.sim.Logf("cancel", "%s", why)
	w.cancel()
}

// transportCtxErr is what the transport reports once the request context is done: the context's
// error, or - as net/http does since Go 1.23 for a context cancelled with a cause - the cause.
func (w *clientWorld) transportCtxErr() error {
	if err := w.ctx.Err(); err == nil {
		return nil
	}
	if w.cause != nil {
		return context.Cause(w.ctx)
	}
	return w.ctx.Err()
}

// simDeadlineCtx is a context.Context implementation of the caller's own: done when expire is
// called, with context.DeadlineExceeded as its error.
type simDeadlineCtx struct {
	context.Context
	mu          sync.Mutex
	done        chan struct{}
	err         error
	deadline    time.Time
	hasDeadline bool
}

// Deadline reports the instant at which the simulated canceller will end the context, when that is
// a fixed instant (a context made with a timeout), or a far one (ended early, like a deadline
// context whose parent is cancelled).
func (c *simDeadlineCtx) Deadline() (time.Time, bool) { return c.deadline, c.hasDeadline }

func (c *simDeadlineCtx) Done() <-chan struct{} { return c.done }

func (c *simDeadlineCtx) Err() error {
	c.mu.Lock()
	defer c.mu.Unlock()
	return c.err
}

func (c *simDeadlineCtx) expire() {
	c.mu.Lock()
	defer c.mu.Unlock()
	if c.err == nil {
		c.err = context.DeadlineExceeded
		close(c.done)
	}
}

// ---------------------------------------------------------------- request body kinds

type plainReader struct{ r *bytes.Reader }

func (p *plainReader) Read(b []byte) (int, error) { return p.r.Read(b) }

// closableBody is a request body that stops working once it is closed, like an *os.File.
type closableBody struct {
	r      *bytes.Reader
	closed bool
	use    bodyUse
}

func (b *closableBody) Read(p []byte) (int, error) {
	b.use.note()
	if b.closed {
		return 0, newInjected("read of a request body that was closed")
	}
	return b.r.Read(p)
}

func (b *closableBody) Close() error { b.use.note(); b.closed = true; return nil }

// bodyUse remembers in which attempt a request body instance was handed to the transport (read or
// closed by it). "Re-obtained through GetBody for every retry" means that no instance serves two attempts.
type bodyUse struct {
	w      *clientWorld
	serial int // 0 = the body the request was made with, k = the k-th result of GetBody
	usedBy int
}

func (u *bodyUse) note() {
	if u.w == nil {
		return
	}
	n := len(u.w.attempts)
	if u.usedBy == 0 {
		u.usedBy = n
	} else if u.usedBy != n && u.w.bodyReuse == "" {
		u.w.bodyReuse = fmt.Sprintf("the body instance #%d (0 = original, k = k-th GetBody result) was handed to the transport in attempt #%d and again in attempt #%d", u.serial, u.usedBy, n)
	}
}

// trackedBody wraps what the request's own GetBody returns (kinds 2 and 4).
type trackedBody struct {
	io.ReadCloser
	use bodyUse
}

func (t *trackedBody) Read(p []byte) (int, error) { t.use.note(); return t.ReadCloser.Read(p) }
func (t *trackedBody) Close() error               { t.use.note(); return t.ReadCloser.Close() }

func (w *clientWorld) newRequest() *http.Request {
	var body io.Reader
	switch w.bodyKind {
	case 5:
		body = &closableBody{r: bytes.NewReader(w.bodyBytes), use: bodyUse{w: w}}
	case 2, 4:
		body = bytes.NewReader(w.bodyBytes)
	case 3:
		body = &plainReader{bytes.NewReader(w.bodyBytes)}
	}
	method := http.MethodGet
	if w.bodyKind >= 2 {
		method = http.MethodPost
	}
	req, err := http.NewRequestWithContext(w.ctx, method, "http://sim.invalid/events", body)
	if err != nil {
		panic(err)
	}
	if w.bodyKind == 1 {
		req.Body = http.NoBody
	}
	if w.bodyKind == 5 {
		req.ContentLength = int64(len(w.bodyBytes))
		req.GetBody = func() (io.ReadCloser, error) {
			w.getBodyN++
			return &closableBody{r: bytes.NewReader(w.bodyBytes), use: bodyUse{w: w, serial: w.getBodyN}}, nil
		}
		w.o.probe("request body that is unusable once closed")
	}
	if w.bodyKind == 4 {
		orig := req.GetBody
		req.GetBody = func() (io.ReadCloser, error) {
			w.getBodyN++
			if w.getBodyN == w.failGetAt {
				w.getBodyFailSeq = w.tick()
				w.o.fault("GetBody fails")
				return nil, w.getBodyErr
			}
			b, err := orig()
			return &trackedBody{ReadCloser: b, use: bodyUse{w: w, serial: w.getBodyN}}, err
		}
	} else if w.bodyKind == 2 {
		orig := req.GetBody
		req.GetBody = func() (io.ReadCloser, error) {
			w.getBodyN++
			b, err := orig()
			return &trackedBody{ReadCloser: b, use: bodyUse{w: w, serial: w.getBodyN}}, err
		}
	}
	return req
}

// ---------------------------------------------------------------- run

func runClientWorld(rc *RunCtx) *Outcome {
	o := newOutcome()
	var w *clientWorld
	var res verifhook.Result
	bubblePanic := ""
	func() {
		defer func() {
			if p := recover(); p != nil {
				bubblePanic = fmt.Sprint(p)
			}
		}()
		synctest.Test(rc.T, func(t *testing.T) {
			w = &clientWorld{rc: rc, o: o, ch: rc.Ch}
			// the jitter PRNG is seeded from the fake clock: move it by a chosen amount first
			time.Sleep(time.Duration(rc.Ch.Intn(1_000_000, "clock offset")) * time.Microsecond)
			cfg := verifhook.Config{MaxSteps: 6000, Horizon: 1 << 62, KeepLog: rc.KeepLog}
			cfg.Sticky = []int{0, 2, 6}[rc.Ch.Intn(3, "scheduler stickiness")]
			if rc.Ch.Chance(1, 4, "priority scheduling") {
				cfg.PCT = 1 + rc.Ch.Intn(3, "pct depth")
				o.probe("priority (PCT) scheduling")
			}
			w.generate()
			w.sim = verifhook.New(rc.Ch, cfg)
			verifhook.Install(w.sim)
			defer verifhook.Install(nil)
			if rc.Ch.Chance(1, 4, "context ends with DeadlineExceeded") {
				// a caller-supplied Context of another kind: it ends with DeadlineExceeded (ended by the same
				// simulated canceller, so that the instant stays a scheduling decision)
				dc := &simDeadlineCtx{Context: context.Background(), done: make(chan struct{})}
				switch {
				case w.cancelPlan == 3:
					dc.deadline, dc.hasDeadline = time.Now().Add(w.cancelTime), true
					o.probe("request context with a known deadline")
				case rc.Ch.Chance(1, 2, "far deadline"):
					dc.deadline, dc.hasDeadline = time.Now().Add(1000*time.Hour), true
				}
				w.ctx, w.cancel = dc, dc.expire
				o.probe("request context that ends with DeadlineExceeded")
			} else if rc.Ch.Chance(1, 4, "context cancelled with a cause") {
				// context.WithCancelCause: ctx.Err() is still context.Canceled, but net/http reports the cause
				w.cause = newInjected("the application's reason for stopping")
				ctx, cancel := context.WithCancelCause(context.Background())
				w.ctx, w.cancel = ctx, func() { cancel(w.cause) }
				o.probe("request context cancelled with a cause")
			} else {
				w.ctx, w.cancel = context.WithCancel(context.Background())
			}
			context.AfterFunc(w.ctx, w.sim.Poke)
			w.build()
			res = w.sim.Run()
			w.sim.Abort()
		})
	}()
	if w == nil || w.sim == nil {
		o.Inconclusive = true
		o.probe("harness: world not built: " + bubblePanic)
		return o
	}
	o.Steps = res.Steps
	o.SimTime = res.SimTime
	o.LogHash = res.Hash
	o.Sched = res.SchedHash
	if rc.KeepLog {
		o.Log = append(o.Log, w.describe()...)
		for _, e := range w.sim.Events() {
			o.Log = append(o.Log, e.String())
		}
	}
	w.evaluate(res, bubblePanic)
	h := newHasher()
	h.u64(res.SchedHash)
	h.str(strings.Join(w.describe(), "|"))
	for _, a := range w.attempts {
		h.int(int(a.kind))
		h.bytes(a.stream)
		h.int(a.endKind)
	}
	o.Key = uint64(h)
	o.Nontrivial = len(w.attempts) >= 2 || len(w.events) >= 1 || len(w.refEvs) >= 1
	var atts []string
	for _, a := range w.attempts {
		atts = append(atts, fmt.Sprintf("#%d kind=%d stream=%q end=%d lastID=%q", a.n, a.kind, a.stream, a.endKind, a.lastID))
	}
	if len(atts) > 6 {
		atts = atts[:6]
	}
	o.Sample = map[string]any{"config": w.describe(), "attempts": atts, "connect_result": fmt.Sprint(w.connectErr), "retries": len(w.retries)}
	sh := newHasher()
	sh.int(len(w.attempts))
	sh.int(len(w.retries))
	sh.int(b2i(w.cancelSeq != 0))
	sh.str(classifyErr(w.connectErr))
	o.States = append(o.States, uint64(sh))
	return o
}

func classifyErr(err error) string {
	var ce *sse.ConnectionError
	switch {
	case err == nil:
		return "nil"
	case errors.Is(err, context.Canceled), errors.Is(err, context.DeadlineExceeded):
		if errors.As(err, &ce) {
			return "ConnectionError(ctx)"
		}
		return "ctx"
	case errors.As(err, &ce):
		switch {
		case errors.Is(err, sse.ErrUnexpectedEOF):
			return "ConnectionError(ErrUnexpectedEOF)"
		case errors.Is(err, io.EOF):
			return "ConnectionError(EOF)"
		case isInjected(err):
			return "ConnectionError(injected) " + ce.Reason
		}
		return "ConnectionError(other) " + ce.Reason
	}
	return "other"
}

func (w *clientWorld) describe() []string {
	b := w.cfg
	return []string{
		fmt.Sprintf("backoff initial=%v mult=%v jitter=%v maxInterval=%v maxElapsed=%v maxRetries=%d", b.InitialInterval, b.Multiplier, b.Jitter, b.MaxInterval, b.MaxElapsedTime, b.MaxRetries),
		fmt.Sprintf("validator=%d rejectAt=%d bodyKind=%d failGetAt=%d attemptLimit=%d cancelPlan=%d cancelAttempt=%d cancelOffset=%d cancelTime=%v buf=%d connectCalls=%d gaps=%v preDelay=%v priorConns=%d",
			w.validator, w.rejectAt, w.bodyKind, w.failGetAt, w.maxAtt, w.cancelPlan, w.cancelAttempt, w.cancelOffset, w.cancelTime, w.bufSize, w.nCalls, w.callGaps, w.preDelay, w.priorConns),
	}
}

func (w *clientWorld) build() {
	sim := w.sim
	client := &sse.Client{
		HTTPClient: &http.Client{Transport: &clientRT{w}},
		Backoff:    w.cfg,
		OnRetry: func(err error, d time.Duration) {
			w.retries = append(w.retries, retryRec{at: sim.Elapsed(), seq: w.tick(), d: d, err: err})
			sim.Logf("OnRetry", "wait=%v err=%v", d, err)
			sim.YieldHere("OnRetry")
		},
	}
	if w.noOnRetry {
		client.OnRetry = nil
		w.o.probe("Client without OnRetry")
	}
	switch w.validator {
	case 3:
		client.ResponseValidator = sse.NoopValidator
	case 1:
		client.ResponseValidator = func(r *http.Response) error { return sse.DefaultValidator(r) }
	case 2:
		client.ResponseValidator = func(r *http.Response) error {
			if len(w.attempts) == w.rejectAt {
				w.o.fault("validator rejects the response")
				return w.rejectErr
			}
			return sse.DefaultValidator(r)
		}
	}
	for i := 0; i < w.priorConns; i++ {
		// a Client is meant to be shared: earlier connections made from it must not change what this one does
		other, _ := http.NewRequestWithContext(w.ctx, http.MethodGet, "http://sim.invalid/other", http.NoBody)
		_ = client.NewConnection(other)
		w.o.probe("Client reused for a further NewConnection")
	}
	req := w.newRequest()
	if w.useDefault {
		saved := *sse.DefaultClient
		sse.DefaultClient.HTTPClient, sse.DefaultClient.OnRetry = client.HTTPClient, client.OnRetry
		w.conn = sse.NewConnection(req)
		*sse.DefaultClient = saved
		w.o.probe("package-level NewConnection (DefaultClient)")
	} else {
		w.conn = client.NewConnection(req)
	}
	if w.lateEdits {
		// "we clone the client so the config cannot be modified from outside", and the request likewise
		client.Backoff = sse.Backoff{InitialInterval: 77 * time.Hour, MaxRetries: -1, Jitter: 0.9}
		client.OnRetry = func(error, time.Duration) {
			w.o.violate("C12", "late-client-edit", "an OnRetry installed on the caller's Client after NewConnection was called")
		}
		client.ResponseValidator = func(*http.Response) error { return newInjected("validator installed after NewConnection") }
		req.Header.Set("Last-Event-ID", "set-by-the-caller-afterwards")
		req.Header.Set("Accept", "text/plain")
		w.o.probe("Client and request edited after NewConnection")
	}
	if w.bufSize > 0 {
		var buf []byte
		if w.ch.Chance(1, 2, "caller-supplied buffer") {
			// the same slice backs the scanner of every attempt: nothing handed out earlier may alias it
			buf = make([]byte, 0, []int{16, 512, 4096}[w.ch.Intn(3, "caller buffer capacity")])
			w.o.probe("caller-supplied scanner buffer reused across attempts")
		}
		w.conn.Buffer(buf, w.bufSize)
		w.limit = w.bufSize
		if cap(buf) > w.limit {
			w.limit = cap(buf) // bufio.Scanner.Buffer: the larger of max and cap(buf)
		}
	}
	w.setupCallbacks()
	sim.Spawn("connect", func() {
		if w.preDelay > 0 {
			sim.Sleep("before Connect", w.preDelay)
		}
		for i := 0; i < w.nCalls; i++ {
			c := &callRec{invoked: w.tick(), at: sim.Elapsed()}
			w.calls = append(w.calls, c)
			if i == 0 {
				w.connectInvoked, w.connectAt = c.invoked, c.at
			}
			sim.Logf("Connect", "invoke (call %d)", i+1)
			c.err = w.conn.Connect()
			c.returned = w.tick()
			c.retAt = sim.Elapsed()
			if n := len(w.attempts); n > 0 && w.attempts[n-1].endSeq == 0 {
				w.attempts[n-1].endSeq = c.returned
			}
			for _, e := range w.events {
				if e.closeSeq == 0 {
					e.closeSeq = c.returned
				}
			}
			sim.Logf("Connect", "call %d returned %v", i+1, c.err)
			if i+1 < w.nCalls {
				w.o.probe("Connect called again on the same Connection")
				if w.callGaps[i] > 0 {
					sim.Sleep("between Connect calls", w.callGaps[i])
				}
			}
		}
		last := w.calls[len(w.calls)-1]
		w.connectErr, w.connectRetAt, w.connectReturned = last.err, last.retAt, last.returned
	})
	switch w.cancelPlan {
	case 1:
		sim.Spawn("canceller", func() {
			sim.WaitFor("cancel after attempts", func() bool { return len(w.attempts) >= w.cancelAttempt || w.connectReturned != 0 })
			w.doCancel("after attempts")
		})
	case 3:
		sim.Spawn("canceller", func() {
			sim.Sleep("cancel timer", w.cancelTime)
			w.doCancel("at time")
		})
	}
}

// ---------------------------------------------------------------- callbacks (C13)

func (w *clientWorld) onEvent(cb *cbRec) sse.EventCallback {
	return func(e sse.Event) {
		cb.seenEv = append(cb.seenEv, RefEvent{ID: e.LastEventID, Type: e.Type, Data: e.Data})
		cb.seenSeq = append(cb.seenSeq, w.tick())
		w.dispatched++
		w.sim.Logf("callback", "cb%d(%s) got {id=%q type=%q data=%q}", cb.id, cb.typ, e.LastEventID, e.Type, e.Data)
		w.cancelFromCallback()
		if w.rc.Prop == "C13" {
			w.sim.YieldHere("callback")
		}
	}
}

// cancelFromCallback (cancel plan 4): the application stops the connection from inside a callback;
// the event being dispatched still goes to every callback subscribed to it.
func (w *clientWorld) cancelFromCallback() {
	if w.cancelPlan == 4 && w.cancelSeq == 0 && w.dispatched >= w.cancelEvents {
		w.o.probe("request cancelled from inside a callback")
		w.doCancel("from inside a callback")
	}
}

func (w *clientWorld) subscribe(cb *cbRec) {
	cb.subInvoked = w.tick()
	switch {
	case cb.all:
		cb.remover = w.conn.SubscribeToAll(w.onEvent(cb))
	case cb.typ == "":
		if w.ch.Chance(1, 2, "SubscribeMessages") {
			cb.remover = w.conn.SubscribeMessages(w.onEvent(cb))
		} else {
			cb.remover = w.conn.SubscribeEvent("", w.onEvent(cb))
		}
	default:
		cb.remover = w.conn.SubscribeEvent(cb.typ, w.onEvent(cb))
	}
	cb.subReturned = w.tick()
	w.sim.Logf("subscribe", "cb%d type=%s", cb.id, cb.typ)
}

func (w *clientWorld) remove(cb *cbRec) {
	if cb.remover == nil {
		return
	}
	if cb.remInvoked == 0 {
		cb.remInvoked = w.tick()
	}
	cb.remover()
	if cb.remReturned == 0 {
		cb.remReturned = w.tick()
	}
	w.sim.Logf("unsubscribe", "cb%d", cb.id)
}

// removeConcurrent calls cb's remover from a task that may run concurrently with
// other callers of the same remover: the callback must never be invoked after ANY
// call of its unsubscribe function has returned, so the earliest return counts.
func (w *clientWorld) removeConcurrent(cb *cbRec) {
	if cb.remover == nil {
		return
	}
	inv := w.tick()
	if cb.remInvoked == 0 || inv < cb.remInvoked {
		cb.remInvoked = inv
	}
	cb.remover()
	ret := w.tick()
	if cb.remReturned == 0 || ret < cb.remReturned {
		cb.remReturned = ret
	}
	w.sim.Logf("unsubscribe", "cb%d (hot)", cb.id)
}

func (w *clientWorld) newCB(typ string, all bool) *cbRec {
	cb := &cbRec{id: len(w.cbs), typ: typ, all: all}
	if all {
		cb.typ = allTypes
	}
	w.cbs = append(w.cbs, cb)
	return cb
}

func (w *clientWorld) setupCallbacks() {
	ch := w.ch
	// observer: records every dispatched event; registered first, never removed. Some runs do
	// without it, so that states in which nobody is subscribed are reachable; the C13 oracle
	// takes its events from the reference interpreter and the Read log instead.
	obs := w.newCB(allTypes, true)
	w.noObs = w.rc.Prop == "C13" && ch.Chance(1, 3, "no observer")
	if w.noObs {
		obs.all, obs.typ = false, "(no observer)"
		w.o.probe("run without an always-subscribed observer")
	}
	if !w.noObs {
		w.registerObserver(obs)
	}
	w.afterObserver(ch)
}

func (w *clientWorld) registerObserver(obs *cbRec) {
	obs.subInvoked = w.tick()
	obs.remover = w.conn.SubscribeToAll(func(e sse.Event) {
		a := w.attempts[len(w.attempts)-1]
		openSeq := 0
		if n := len(a.reads); n > 0 {
			openSeq = a.reads[n-1].retSeq
		}
		rec := &evRec{idx: len(w.events), ev: RefEvent{ID: e.LastEventID, Type: e.Type, Data: e.Data}, attempt: a.n, openSeq: openSeq}
		w.events = append(w.events, rec)
		w.lastDispatchedID = e.LastEventID
		obs.seenEv = append(obs.seenEv, rec.ev)
		obs.seenSeq = append(obs.seenSeq, w.tick())
		w.dispatched++
		defer w.cancelFromCallback()
		w.sim.Logf("event", "%d attempt #%d {id=%q type=%q data=%q}", rec.idx, a.n, e.LastEventID, e.Type, e.Data)
	})
	obs.subReturned = w.tick()
}

func (w *clientWorld) afterObserver(ch *Chooser) {
	if w.rc.Prop != "C13" && !ch.Chance(1, 4, "callbacks in this run") {
		return
	}
	// allTypes stands for SubscribeToAll; "*" and "all" are ordinary event types like any other
	types := []string{"", "a", "b", "message", allTypes, "*", allTypes, "all"}
	// half of the runs concentrate on one type, so that its set of callbacks keeps going from empty to
	// one to two and back while events of that type arrive
	focus, hasFocus := "", ch.Chance(1, 2, "runs around one event type")
	if hasFocus {
		focus = []string{"", "a", "b", "*"}[ch.Intn(4, "focus type")]
	}
	pickType := func(label string) string {
		if hasFocus && ch.Chance(3, 4, label+" is the focus type") {
			return focus
		}
		return types[ch.Intn(len(types), label)]
	}
	// before Connect
	for i := 0; i < 4 && ch.Chance(1, 2, "callback before connect"); i++ {
		t := pickType("callback type")
		cb := w.newCB(t, t == allTypes)
		w.subscribe(cb)
		if ch.Chance(1, 5, "removed before connect") {
			w.remove(cb)
		}
	}
	// a callback registered before Connect that several tasks try to remove at about the same time
	var hot *cbRec
	if len(w.cbs) > 1 && ch.Chance(1, 2, "hot callback") {
		hot = w.cbs[1+ch.Intn(len(w.cbs)-1, "which hot callback")]
	}
	hotAt := ch.Range(1, 4, "hot removal after events")
	// handover: the only callback of a type is removed while, at the same moment, another goroutine
	// subscribes a new one for that type (an application replacing a handler)
	if ch.Chance(1, 4, "handover of a type's only callback") {
		used := map[string]bool{}
		for _, cb := range w.cbs {
			used[cb.typ] = true
		}
		var free []string
		for _, t := range []string{"", "a", "b", "message", "*", "all"} {
			if !used[t] {
				free = append(free, t)
			}
		}
		if len(free) > 0 {
			ht := free[ch.Intn(len(free), "handover type")]
			old := w.newCB(ht, false)
			w.subscribe(old)
			at := ch.Range(0, 4, "handover after events")
			w.sim.Spawn("handover-remove", func() {
				w.sim.WaitWeak("handover waits", func() bool { return w.dispatched >= at || w.connectReturned != 0 })
				w.remove(old)
			})
			w.sim.Spawn("handover-subscribe", func() {
				w.sim.WaitWeak("handover waits", func() bool { return w.dispatched >= at || w.connectReturned != 0 })
				w.subscribe(w.newCB(ht, false))
			})
			w.o.probe("handover of a type's only callback")
		}
	}
	// concurrently with Connect
	nTasks := ch.Range(0, 3, "subscriber tasks")
	for t := 0; t < nTasks; t++ {
		t := t
		w.sim.Spawn(fmt.Sprintf("subscriber%d", t), func() {
			var mine []*cbRec
			if hot != nil && ch.Chance(2, 3, "this task removes the hot callback") {
				w.sim.WaitWeak("waits to remove the hot callback", func() bool { return w.dispatched >= hotAt || w.connectReturned != 0 })
				w.removeConcurrent(hot)
				w.o.probe("hot callback removed by a subscriber task")
			}
			for i := 0; i < 5 && ch.Chance(3, 4, "more subscription ops"); i++ {
				k := ch.Range(0, 12, "wait for events")
				w.sim.WaitWeak("subscriber waits", func() bool { return w.dispatched >= k || w.connectReturned != 0 })
				switch ch.Weighted([]int{4, 3, 1, 1, 2}, "subscription op") {
				case 4: // a short-lived subscription: subscribed and removed again at once, whatever is going on meanwhile
					ty := pickType("callback type")
					cb := w.newCB(ty, ty == allTypes)
					w.subscribe(cb)
					w.remove(cb)
					w.o.probe("callback subscribed and removed at once")
				case 0:
					ty := pickType("callback type")
					cb := w.newCB(ty, ty == allTypes)
					mine = append(mine, cb)
					w.subscribe(cb)
				case 1:
					if len(mine) > 0 {
						w.remove(mine[ch.Intn(len(mine), "which callback")])
					}
				case 2: // stale / repeated remover
					if len(mine) > 0 {
						cb := mine[ch.Intn(len(mine), "which callback")]
						w.remove(cb)
						w.remove(cb)
						w.o.probe("repeated remover")
					}
				case 3: // remover of a callback registered before Connect by the root
					if len(w.cbs) > 1 {
						w.remove(w.cbs[1+ch.Intn(len(w.cbs)-1, "which callback")])
					}
				}
				w.sim.YieldHere("subscriber step")
			}
		})
	}
}

// ---------------------------------------------------------------- oracles

func (w *clientWorld) evaluate(res verifhook.Result, bubblePanic string) {
	o := w.o
	for _, t := range res.Panicked {
		o.violate("C11", "panic", "task %s panicked: %s", t.Name, t.PanicInfo)
	}
	if len(res.Panicked) > 0 {
		return
	}
	if res.CapHit {
		o.Inconclusive = true
		return
	}
	if w.connectReturned == 0 {
		if w.noOnRetry && res.SimTime >= 1<<62-1 {
			o.Inconclusive = true // a wait that reaches beyond the simulated horizon, and no OnRetry to tell its size
			return
		}
		if n := len(w.retries); n > 0 && w.retries[n-1].at+w.retries[n-1].d >= 1<<62-1 || res.SimTime >= 1<<62-1 && n > 0 && w.retries[n-1].d > 1<<58 {
			o.Inconclusive = true // an announced wait reaches beyond the simulated horizon (2^62 ns): outside the property's bounds
			return
		}
		var names []string
		for _, t := range res.Unfinish {
			names = append(names, t.Name+"@"+t.Site())
		}
		o.violate("C11", "connect-stuck", "Connect never returned although the system was idle up to the horizon (%s); cancelled=%v attempts=%d", strings.Join(names, ","), w.cancelSeq != 0, len(w.attempts))
		return
	}
	// reference interpretation of each stream attempt
	last := ""
	for _, a := range w.attempts {
		a.initialID = last
		if a.kind != attStream {
			continue
		}
		a.ref = RefInterpret(a.stream[:a.delivered], last, true)
		if a.ref.RetryOutOfBounds {
			o.Inconclusive = true // retry value beyond 10^12 ms: outside the properties' bounds
			return
		}
		limit := defaultMaxEvent
		if w.limit > 0 {
			limit = w.limit
		}
		if whole := RefInterpret(a.stream, last, true); whole.MaxSpan >= limit-8 {
			// A block beyond the scanner's limit ends the connection with bufio.ErrTooLong once the
			// buffer is full; the complete blocks before it are delivered, nothing after it is parsed.
			// Sizes within 8 bytes of the limit are left to C20.
			cut, fuzzy, prev := -1, false, 0
			spans := append(append([]int(nil), whole.BlockEnds...), len(a.stream))
			for _, be := range spans {
				if span := be - prev; span > limit+8 {
					cut = prev
					break
				} else if span >= limit-8 {
					fuzzy = true
					break
				}
				prev = be
			}
			d := a.delivered - cut
			if fuzzy || cut < 0 || (d >= limit-8 && d < limit) {
				o.Inconclusive = true
				o.probe("stream with an event at the buffer limit (left to C20)")
				return
			}
			if d >= limit {
				a.tooLong = true
				a.ref = RefInterpret(a.stream[:cut], last, true)
				if n := len(a.reads); n > 0 {
					a.ended = a.reads[n-1].at
				}
				o.probe("event beyond the buffer limit ends the connection")
			}
		}
		evs := a.ref.Events
		clean := a.endKind == 0 && a.delivered == len(a.stream) && a.cancelledAt < 0 && !a.tooLong
		if a.ref.FlushedAtEOF && !clean {
			evs = evs[:len(evs)-1]
		}
		if len(evs) > 0 {
			last = evs[len(evs)-1].ID
		}
	}
	for _, r := range w.sim.Races() {
		o.violate("C13", "data-race", "lockset violation: %s", r.String())
	}
	if w.noOnRetry {
		// no OnRetry to announce the waits: take them from the instants at which one attempt ended and the next began
		w.retries = nil
		for _, c := range w.calls {
			var prev *attemptRec
			for _, a := range w.attempts {
				if a.startSeq > c.invoked && a.startSeq < c.returned {
					if prev != nil {
						w.retries = append(w.retries, retryRec{at: prev.ended, seq: a.retrySlot, d: a.start - prev.ended})
					}
					prev = a
				}
			}
		}
	}
	w.deriveEvents()
	w.checkEvents()
	w.checkC10()
	for i := range w.calls {
		w.forCall(i, func() {
			w.checkC10Call()
			w.checkC11()
			w.checkC12()
		})
	}
	w.checkC13()
	if w.rc.Prop == "C11" {
		// the Read half of C11: the same bytes through sse.Read, ended in a drawn way
		for _, a := range w.attempts {
			if a.kind == attStream && len(a.stream) > 0 {
				checkReadErrorIdentity(o, w.ch, a.stream)
				break
			}
		}
	}
	w.clientProbes()
}

// forCall runs f with the world narrowed to the i-th Connect call: its attempts, its announced
// retries, its invocation and return.
func (w *clientWorld) forCall(i int, f func()) {
	c := w.calls[i]
	sa, sr := w.attempts, w.retries
	si, sret, serr, sat, sretAt := w.connectInvoked, w.connectReturned, w.connectErr, w.connectAt, w.connectRetAt
	defer func() {
		w.attempts, w.retries = sa, sr
		w.connectInvoked, w.connectReturned, w.connectErr, w.connectAt, w.connectRetAt = si, sret, serr, sat, sretAt
		w.callIdx, w.b1Unclear = 0, false
	}()
	w.attempts, w.retries = nil, nil
	w.b1Unclear = false
	for _, a := range sa {
		switch {
		case a.startSeq > c.invoked && a.startSeq < c.returned:
			w.attempts = append(w.attempts, a)
		case a.startSeq < c.invoked && a.kind == attStream:
			for _, r := range a.ref.Retries {
				if r.Millis > 0 {
					// whether a retry value outlives the Connect call it was received in is not stated
					w.b1Unclear = true
				}
			}
		}
	}
	for _, r := range sr {
		if r.seq > c.invoked && r.seq < c.returned {
			w.retries = append(w.retries, r)
		}
	}
	w.callIdx = i
	w.connectInvoked, w.connectReturned, w.connectErr, w.connectAt, w.connectRetAt = c.invoked, c.returned, c.err, c.at, c.retAt
	f()
}

// bodyResetFailed: in the call being looked at the request body could not be re-obtained.
func (w *clientWorld) bodyResetFailed() bool {
	switch w.bodyKind {
	case 3:
		return len(w.retries) > 0 || w.callIdx > 0
	case 4:
		return w.getBodyFailSeq > w.connectInvoked && w.getBodyFailSeq < w.connectReturned
	}
	return false
}

// deriveEvents builds the list of dispatched events with conservative dispatch
// brackets from the reference interpreter and the Read log alone: an event
// whose block ends at offset E is dispatched no earlier than the return of the
// Read that delivered byte E-2 (a CRLF blank line can be recognised at its CR)
// and no later than the call of the Read after the one that delivered byte E
// (or, for an event flushed by a clean end of stream, the end of the attempt).
func (w *clientWorld) deriveEvents() {
	w.refEvs = nil
	for _, a := range w.attempts {
		evs := a.expectedEvents()
		for i, ev := range evs {
			end := len(a.stream)
			atEOF := true
			if i < len(a.ref.End) && !(a.ref.FlushedAtEOF && i == len(a.ref.Events)-1) {
				end, atEOF = a.ref.End[i], false
			}
			rec := &evRec{idx: len(w.refEvs), ev: ev, attempt: a.n, closeSeq: a.endSeq}
			i0, i1 := -1, -1
			for k, r := range a.reads {
				if i0 < 0 && r.off >= end-2 {
					i0 = k
				}
				if i1 < 0 && r.off >= end && (!atEOF || r.err != nil) {
					i1 = k
				}
			}
			if i0 >= 0 {
				rec.openSeq = a.reads[i0].retSeq
			}
			if i1 >= 0 && i1+1 < len(a.reads) {
				rec.closeSeq = a.reads[i1+1].callSeq
			}
			w.refEvs = append(w.refEvs, rec)
		}
	}
}

// expectedEvents of attempt a (reference view).
func (a *attemptRec) expectedEvents() []RefEvent {
	if a.kind != attStream {
		return nil
	}
	evs := a.ref.Events
	clean := a.endKind == 0 && a.delivered == len(a.stream) && a.cancelledAt < 0 && !a.tooLong
	if a.ref.FlushedAtEOF && !clean {
		evs = evs[:len(evs)-1]
	}
	return evs
}

// checkEvents: the dispatched events are exactly the reference's (C01 on the Connection entry, with carried-over IDs).
func (w *clientWorld) checkEvents() {
	if w.noObs {
		return
	}
	var want []RefEvent
	for _, a := range w.attempts {
		want = append(want, a.expectedEvents()...)
	}
	var got []RefEvent
	for _, e := range w.events {
		got = append(got, e.ev)
	}
	// a buffer limit may legitimately cut a stream short (C20)
	if !eventsEqual(got, want) {
		w.o.violate("C01", "events", "Connection over %d attempts dispatched %s, want %s", len(w.attempts), describeEvents(got), describeEvents(want))
	}
}

func (w *clientWorld) checkC10() {
	o := w.o
	smallBuf := false // events beyond a small limit are modelled (tooLong), sizes at the limit are inconclusive
	want := ""
	for i, a := range w.attempts {
		hdr := a.lastID
		switch {
		case i == 0:
			if len(hdr) != 0 {
				o.violate("C10", "first-attempt-header", "first attempt carries Last-Event-ID %q", hdr)
			}
		case want == "":
			if len(hdr) != 0 && !smallBuf {
				o.violate("C10", "header-absent", "attempt #%d carries Last-Event-ID %q although the last dispatched event's ID is empty", a.n, hdr)
			}
		default:
			if (len(hdr) != 1 || hdr[0] != want) && !smallBuf {
				o.violate("C10", "header-value", "attempt #%d carries Last-Event-ID %q, want %q (ID of the most recently dispatched event)", a.n, hdr, want)
			}
		}
		// body
		switch w.bodyKind {
		case 0:
			if len(a.body) != 0 {
				o.violate("C10", "body", "attempt #%d has a body %q although the request had none", a.n, a.body)
			}
		case 1:
			if len(a.body) != 0 {
				o.violate("C10", "body", "attempt #%d: NoBody request sent %q", a.n, a.body)
			}
		default:
			if !a.bodyUnsent && !bytes.Equal(a.body, w.bodyBytes) {
				o.violate("C10", "body", "attempt #%d sent body %q, want %q", a.n, a.body, w.bodyBytes)
			}
		}
		if evs := a.expectedEvents(); len(evs) > 0 {
			want = evs[len(evs)-1].ID
		}
	}
	if w.bodyReuse != "" {
		o.violate("C10", "body-reused", "a request body must be re-obtained through GetBody for every retry: %s", w.bodyReuse)
	}
	if w.bodyKind == 3 && len(w.attempts) > 1 {
		o.violate("C10", "body-not-resettable", "a request body without GetBody was sent %d times", len(w.attempts))
	}
}

// checkC10Call (per Connect call): a body that cannot be re-obtained ends Connect.
func (w *clientWorld) checkC10Call() {
	o := w.o
	var ce *sse.ConnectionError
	if !w.bodyResetFailed() || w.cancelSeq != 0 {
		return
	}
	switch w.bodyKind {
	case 3:
		if !(errors.As(w.connectErr, &ce) && errors.Is(w.connectErr, sse.ErrNoGetBody)) {
			o.violate("C10", "body-not-resettable", "Connect call %d had to re-send a request without GetBody: it returned %v, want ErrNoGetBody inside *ConnectionError", w.callIdx+1, w.connectErr)
		}
	case 4:
		for _, a := range w.attempts {
			if a.startSeq > w.getBodyFailSeq {
				o.violate("C10", "body-not-resettable", "GetBody failed at its call #%d but attempt #%d was sent in the same Connect call", w.failGetAt, a.n)
			}
		}
		if !(errors.As(w.connectErr, &ce) && errors.Is(w.connectErr, w.getBodyErr)) {
			o.violate("C10", "body-not-resettable", "GetBody failed with %v: Connect returned %v", w.getBodyErr, w.connectErr)
		}
	}
}

func (w *clientWorld) checkC11() {
	o := w.o
	err := w.connectErr
	var ce *sse.ConnectionError
	cls := classifyErr(err)
	var la *attemptRec
	if n := len(w.attempts); n > 0 {
		la = w.attempts[n-1]
	}
	desc := func() string {
		s := fmt.Sprintf("attempts=%d retries=%d cancelled=%v", len(w.attempts), len(w.retries), w.cancelSeq != 0)
		if la != nil {
			s += fmt.Sprintf(" last attempt #%d kind=%d stream=%q delivered=%d end=%d", la.n, la.kind, la.stream, la.delivered, la.endKind)
		}
		return s
	}
	if err == nil {
		o.violate("C11", "connect-nil", "Connect returned nil (%s)", desc())
		return
	}
	ctxDone := w.cancelSeq != 0 && w.cancelSeq < w.connectReturned
	isCtx := !errors.As(err, &ce) && (errors.Is(err, context.Canceled) || errors.Is(err, context.DeadlineExceeded))
	if isCtx && !ctxDone {
		o.violate("C11", "ctx-error-without-cancel", "Connect returned %v although the context was never cancelled (%s)", err, desc())
		return
	}
	// permanent failures
	permanent := ""
	if la != nil {
		switch {
		case la.kind == attReject:
			permanent = "validator" // every validator used here delegates to DefaultValidator
		case w.validator == 2 && la.n == w.rejectAt && la.kind == attStream:
			permanent = "validator"
		}
	}
	bodyReset := w.bodyResetFailed()
	if isCtx {
		return
	}
	if !errors.As(err, &ce) {
		o.violate("C11", "not-wrapped", "Connect returned %v (%T), neither a context error nor a *ConnectionError (%s)", err, err, desc())
		return
	}
	if permanent != "" || bodyReset {
		// returned at once: no OnRetry after the failing attempt
		for _, r := range w.retries {
			if la != nil && r.seq > la.startSeq && permanent != "" {
				o.violate("C11", "permanent-retried", "a retry was announced after the response validator had failed (%s)", desc())
			}
		}
		if permanent != "" && w.validator == 2 && !errors.Is(err, w.rejectErr) && la.kind == attStream {
			o.violate("C11", "permanent-error-identity", "validator failed with %v, Connect returned %v", w.rejectErr, err)
		}
		return
	}
	// the context was done and nothing permanent happened: the context's error is due …
	if ctxDone {
		// … unless the retryable end had been seen first and the budget was already exhausted before the cancellation
		if la != nil && la.cancelledAt >= 0 {
			o.violate("C11", "ctx-error-expected", "the context was cancelled while attempt #%d was being read (%d bytes delivered); Connect returned %v instead of the context's error (%s)", la.n, la.delivered, err, desc())
			return
		}
		if la != nil && la.kind == attDialFail && (errors.Is(la.dialErr, context.Canceled) || (w.cause != nil && errors.Is(la.dialErr, w.cause))) {
			o.violate("C11", "ctx-error-expected", "RoundTrip failed with the context's error; Connect returned %v (%s)", err, desc())
			return
		}
	}
	// retries exhausted: budget check and identity of the last attempt's error
	if la == nil {
		o.violate("C11", "no-attempt", "Connect call %d returned %v without making an attempt; the context was not done and nothing permanent had happened", w.callIdx+1, err)
		return
	}
	w.checkExhausted(desc)
	switch la.kind {
	case attDialFail:
		if !errors.Is(err, la.dialErr) {
			o.violate("C11", "error-identity", "last attempt failed with %v, Connect returned %v", la.dialErr, err)
		}
	case attStream:
		if la.cancelledAt >= 0 {
			return
		}
		if la.tooLong {
			if !errors.Is(err, bufio.ErrTooLong) {
				o.violate("C11", "read-error-identity", "attempt #%d ended at an event beyond the buffer limit (%d bytes), Connect returned %v, want bufio.ErrTooLong inside *ConnectionError", la.n, w.limit, err)
			}
			return
		}
		unterminated := RefInterpret(la.stream[:la.delivered], "", true).Unterminated
		switch la.endKind {
		case 1:
			if !errors.Is(err, la.endErr) {
				clause := "read-error-identity"
				o.violate("C11", clause, "stream of attempt #%d ended with %v (unterminated last line: %v), Connect returned %v [%s]", la.n, la.endErr, unterminated, err, cls)
			}
		case 0:
			if unterminated && !errors.Is(err, sse.ErrUnexpectedEOF) {
				o.violate("C11", "eof-identity", "stream %q ended cleanly in mid-line, Connect returned %v, want ErrUnexpectedEOF", la.stream, err)
			}
			if !unterminated && !errors.Is(err, io.EOF) {
				o.violate("C11", "eof-identity", "stream %q ended cleanly after a terminated line, Connect returned %v [%s], want io.EOF inside *ConnectionError", la.stream, err, cls)
			}
		}
	}
}

// baseIntervals returns, for every announced retry, its position k (1-based)
// in its series of consecutive retries, the base b_1 of that series, and the
// earliest / latest instant at which the series can have started (a server
// retry field restarts it somewhere within its connection).
func (w *clientWorld) baseIntervals() (ks []int, bases []time.Duration, resetLo, resetHi []time.Duration) {
	ks, bases, resetLo, resetHi, _ = w.baseIntervals2()
	return
}

// baseIntervals2 also tells for which retries b_1 is unclear: the series was not restarted by a
// connection of this Connect call and an earlier call's connection carried a retry field.
func (w *clientWorld) baseIntervals2() (ks []int, bases []time.Duration, resetLo, resetHi []time.Duration, unclear []bool) {
	e := w.effective
	k := 0
	b1 := e.InitialInterval
	lo, hi := w.connectAt, w.connectAt
	ai := 0
	fresh := true
	for _, r := range w.retries {
		for ai < len(w.attempts) && w.attempts[ai].startSeq < r.seq {
			a := w.attempts[ai]
			ai++
			if a.kind == attStream && !(w.validator == 2 && a.n == w.rejectAt) {
				fresh = false
				k = 0
				b1 = e.InitialInterval
				lo, hi = a.connected, a.connected
				if n := len(a.ref.Retries); n > 0 {
					if ms := a.ref.Retries[n-1].Millis; ms > 0 {
						b1 = time.Duration(ms) * time.Millisecond
					}
					hi = a.ended
				}
			}
		}
		k++
		ks = append(ks, k)
		bases = append(bases, b1)
		resetLo = append(resetLo, lo)
		resetHi = append(resetHi, hi)
		unclear = append(unclear, fresh && w.b1Unclear)
	}
	return
}

func (w *clientWorld) expectedBase(b1 time.Duration, k int) float64 {
	e := w.effective
	b := float64(b1)
	for i := 1; i < k; i++ {
		b *= e.Multiplier
		if e.MaxInterval > 0 && b > float64(e.MaxInterval) {
			b = float64(e.MaxInterval)
		}
	}
	return b
}

func (w *clientWorld) checkC12() {
	o := w.o
	e := w.effective
	ks, bases, _, resets, unclear := w.baseIntervals2()
	for i, r := range w.retries {
		k := ks[i]
		want := w.expectedBase(bases[i], k)
		if want > 4e18 {
			continue // beyond what a time.Duration can hold: outside the property's bounds
		}
		if unclear[i] {
			continue
		}
		// integral nanoseconds: every growth step may lose up to 1 ns, which later steps multiply
		tol := 2.0 + want*1e-9
		for j, g := 0, 1.0; j < k; j++ {
			tol += 2 * g
			g *= e.Multiplier
		}
		d := float64(r.d)
		dev := e.Jitter*want + 1
		if w.jitterOff {
			dev = 0
		}
		if d < want-dev-tol || d > want+dev+tol {
			clause := "wait-out-of-range"
			if w.jitterOff {
				clause = "jitter-off-not-honoured"
			}
			o.violate("C12", clause, "retry #%d (k=%d of its series, b_1=%v): OnRetry wait %v, want %v +- %v (jitter %v, multiplier %v, max interval %v)",
				i+1, k, bases[i], r.d, time.Duration(want), time.Duration(dev), w.cfg.Jitter, e.Multiplier, e.MaxInterval)
			break
		}
		if w.cfg.MaxRetries > 0 && k > w.cfg.MaxRetries {
			o.violate("C12", "too-many-retries", "retry #%d is the %d-th consecutive one, MaxRetries=%d", i+1, k, w.cfg.MaxRetries)
		}
		if w.cfg.MaxRetries < 0 {
			o.violate("C12", "too-many-retries", "a retry was announced although MaxRetries=%d", w.cfg.MaxRetries)
		}
		if e.MaxElapsedTime > 0 && r.at+r.d-resets[i] > e.MaxElapsedTime+time.Duration(tol) {
			o.violate("C12", "max-elapsed-exceeded", "retry #%d announced at %v with wait %v, series started at %v at the latest: exceeds MaxElapsedTime %v", i+1, r.at, r.d, resets[i], e.MaxElapsedTime)
		}
		// the next attempt starts exactly d after OnRetry (unless cancelled first)
		var next *attemptRec
		for _, a := range w.attempts {
			if a.startSeq > r.seq {
				next = a
				break
			}
		}
		if next != nil {
			if next.start-r.at != r.d {
				o.violate("C12", "wait-not-used", "retry #%d announced a wait of %v at %v but the next attempt started at %v (%v later)", i+1, r.d, r.at, next.start, next.start-r.at)
			}
		} else if w.bodyResetFailed() {
			// the body could not be re-obtained for this retry: Connect ends instead (C10)
		} else if w.cancelSeq == 0 || w.cancelSeq > w.connectReturned {
			o.violate("C12", "retry-without-attempt", "retry #%d was announced but no attempt followed and the context was not cancelled", i+1)
		}
	}
	// exactly one OnRetry before each attempt after the first
	for i, a := range w.attempts {
		if i == 0 {
			continue
		}
		n := 0
		for _, r := range w.retries {
			if r.seq > w.attempts[i-1].startSeq && r.seq < a.startSeq {
				n++
			}
		}
		if n != 1 {
			o.violate("C12", "onretry-count", "%d OnRetry calls before attempt #%d, want exactly 1", n, a.n)
		}
	}
}

// checkExhausted: Connect returned the last attempt's error, so the retry budget must be exhausted.
func (w *clientWorld) checkExhausted(desc func() string) {
	e := w.effective
	if w.cfg.MaxRetries < 0 {
		return
	}
	ks, bases, resets, _ := w.baseIntervals()
	// position the *next* retry would have had
	k := 1
	b1 := e.InitialInterval
	reset := w.connectAt
	if n := len(w.retries); n > 0 {
		k, b1, reset = ks[n-1]+1, bases[n-1], resets[n-1]
	}
	la := w.attempts[len(w.attempts)-1]
	unclear := w.b1Unclear
	if la.kind == attStream && !(w.validator == 2 && la.n == w.rejectAt) {
		unclear = false
		k, b1, reset = 1, e.InitialInterval, la.connected
		if n := len(la.ref.Retries); n > 0 && la.ref.Retries[n-1].Millis > 0 {
			b1 = time.Duration(la.ref.Retries[n-1].Millis) * time.Millisecond
		}
	}
	if w.cfg.MaxRetries > 0 && k > w.cfg.MaxRetries {
		return // count exhausted
	}
	for _, a := range w.attempts {
		if a.kind == attStream && !(w.validator == 2 && a.n == w.rejectAt) {
			unclear = false
		}
	}
	if e.MaxElapsedTime > 0 && unclear {
		return // the size of the next wait is not determined (see forCall)
	}
	if e.MaxElapsedTime > 0 {
		want := w.expectedBase(b1, k)
		hi := want*(1+e.Jitter) + 2
		if w.jitterOff {
			hi = want + 2
		}
		if float64(w.connectRetAt-reset)+hi > float64(e.MaxElapsedTime) {
			return // time budget (possibly) exhausted
		}
	}
	w.o.violate("C12", "gave-up-early", "Connect gave up with %v after %d announced retries although the next one would only be consecutive retry %d of its series (MaxRetries=%d, MaxElapsedTime=%v): a successful connection resets count and interval (%s)", w.connectErr, len(w.retries), k, w.cfg.MaxRetries, e.MaxElapsedTime, desc())
	w.o.violate("C11", "gave-up-early", "Connect returned %v although the retry budget was not exhausted (next would be consecutive retry %d, MaxRetries=%d, MaxElapsedTime=%v) (%s)", w.connectErr, k, w.cfg.MaxRetries, e.MaxElapsedTime, desc())
}

func (w *clientWorld) checkC13() {
	o := w.o
	// callbacks are matched to events by value; that needs pairwise distinct events
	index := map[RefEvent]int{}
	for _, e := range w.refEvs {
		if _, dup := index[e.ev]; dup {
			o.probe("C13 skipped: two identical events in one run")
			return
		}
		index[e.ev] = e.idx
	}
	for _, cb := range w.cbs {
		cb.seen = cb.seen[:0]
		for _, ev := range cb.seenEv {
			idx, ok := index[ev]
			if !ok {
				o.violate("C13", "unknown-event", "cb%d(%s) received {id=%q type=%q data=%q}, which was never dispatched", cb.id, cb.typ, ev.ID, ev.Type, ev.Data)
				idx = -1
			}
			cb.seen = append(cb.seen, idx)
		}
	}
	for _, cb := range w.cbs {
		// at most once, in order
		seen := map[int]bool{}
		for i, idx := range cb.seen {
			if seen[idx] {
				o.violate("C13", "duplicate", "cb%d(%s) received event %d twice", cb.id, cb.typ, idx)
			}
			seen[idx] = true
			if i > 0 && idx < cb.seen[i-1] {
				o.violate("C13", "order", "cb%d(%s) received event %d after event %d", cb.id, cb.typ, idx, cb.seen[i-1])
			}
			if idx < 0 || idx >= len(w.refEvs) {
				continue
			}
			ev := w.refEvs[idx]
			if !cb.all && ev.ev.Type != cb.typ {
				o.violate("C13", "wrong-type", "cb%d subscribed to %q received event %d of type %q", cb.id, cb.typ, idx, ev.ev.Type)
			}
			if cb.remReturned != 0 && cb.seenSeq[i] > cb.remReturned {
				o.violate("C13", "after-unsubscribe", "cb%d(%s) was invoked with event %d after its unsubscribe function had returned", cb.id, cb.typ, idx)
			}
		}
		if cb.id == 0 {
			continue
		}
		for _, ev := range w.refEvs {
			match := cb.all || ev.ev.Type == cb.typ
			if !match {
				continue
			}
			must := cb.subReturned != 0 && ev.openSeq != 0 && cb.subReturned < ev.openSeq && (cb.remInvoked == 0 || cb.remInvoked > ev.closeSeq) && ev.closeSeq != 0
			if must && !seen[ev.idx] {
				o.violate("C13", "missed", "cb%d(%s), subscribed before event %d {type=%q data=%q} was received and not removed until after it, never got it", cb.id, cb.typ, ev.idx, ev.ev.Type, ev.ev.Data)
			}
			mustNot := (cb.remReturned != 0 && ev.openSeq != 0 && cb.remReturned < ev.openSeq) || cb.subInvoked == 0 || (ev.closeSeq != 0 && cb.subInvoked > ev.closeSeq)
			if mustNot && seen[ev.idx] {
				o.violate("C13", "spurious", "cb%d(%s) got event %d although it was not subscribed when the event was dispatched", cb.id, cb.typ, ev.idx)
			}
		}
	}
}

func (w *clientWorld) clientProbes() {
	o := w.o
	ks, bases, _, _ := w.baseIntervals()
	for i := range w.retries {
		if ks[i] >= 2 && w.effective.MaxInterval > 0 && w.expectedBase(bases[i], ks[i]) >= float64(w.effective.MaxInterval) {
			o.probe("back-off cap reached")
		}
		if bases[i] != w.effective.InitialInterval {
			o.probe("server retry value overrides the interval")
		}
		if ks[i] == 1 && i > 0 {
			o.probe("retry series reset after a successful connection")
		}
	}
	if w.jitterOff && len(w.retries) > 0 {
		o.probe("Jitter -1 with at least one retry")
	}
	for _, a := range w.attempts {
		if a.kind == attStream && a.cancelledAt >= 0 && RefInterpret(a.stream[:a.delivered], "", true).Unterminated {
			o.probe("cancellation in mid-line")
		}
		if a.kind == attStream && a.endKind == 1 && a.delivered == len(a.stream) && RefInterpret(a.stream, "", true).Unterminated {
			o.probe("read error in mid-line")
		}
		if a.kind == attStream && a.endKind == 0 && a.delivered == len(a.stream) && a.cancelledAt < 0 {
			r := RefInterpret(a.stream, "", true)
			if !r.Unterminated && !r.FlushedAtEOF && len(a.stream) > 0 {
				o.probe("clean end with nothing pending")
			}
		}
		if len(a.lastID) == 1 {
			o.probe("reconnect carrying Last-Event-ID")
		}
	}
	if len(w.cbs) > 1 && len(w.refEvs) > 0 {
		o.probe("callbacks and events in one run")
	}
	for _, cb := range w.cbs[1:] {
		if cb.subInvoked > w.connectInvoked && w.connectInvoked != 0 && len(cb.seenEv) > 0 {
			o.probe("callback added while connected received events")
		}
		if cb.remInvoked != 0 && len(cb.seenEv) > 0 {
			o.probe("callback removed after receiving events")
		}
	}
	if w.connectErr != nil && errors.Is(w.connectErr, sse.ErrNoGetBody) {
		o.probe("ErrNoGetBody")
	}
}

func init() {
	real := []string{"sse.Client, sse.Connection (Connect, doConnect, resetRequest, dispatch, callbacks), instrumented copy", "back-off controller on the fake clock (time.NewTimer, time.Now, jitter PRNG seeded from it)", "event.go read(), internal/parser", "net/http.Client (Do)", "context"}
	stub := []string{"http.RoundTripper scripted per attempt (dial failure, rejected response, stream served in chooser-sized chunks, clean end / read error / hang)", "scheduler: synctest bubble + generated yield points", "request bodies of every kind"}
	common := "each evaluation draws a Backoff configuration over its documented domain, a request body kind, a validator, a cancellation plan (after k attempts / at a byte offset / at a simulated instant / from inside a callback), the kind of request context (plain, ending with DeadlineExceeded with or without a Deadline, cancelled with a cause that the transport reports as net/http does), 1-3 Connect calls on the connection with gaps between them, how the Client is used (shared with earlier connections, edited after NewConnection, without OnRetry, NoopValidator, the package-level NewConnection), an optional connection buffer (large, or 256 bytes so that events beyond it end connections) and then, attempt by attempt, an outcome (dial failure, rejected response, stream; optionally after a redirect that the real net/http.Client follows) and a stream (structured events with ids/types/retry fields and adversarial tails, or free-form bytes), served in chooser-sized chunks with optional latency on the fake clock; read, dial and validator errors may be typed or match well-known sentinels. One run in 25 has 20-40 attempts. "
	nontriv := " Non-trivial: at least two attempts or one dispatched event; distinct = distinct (configuration, per-attempt outcomes and streams, scheduling hash)."
	assum := []string{"Connect may be called again on the same Connection after it returned (1-3 calls); each call has the full retry budget of the policy, and whether a server retry value outlives the call it was received in is left open", "retry values between 1 ms and 10^12 ms; histories whose b_k stays below 2^62 ns", "simulated transport models net/http's contract as go-sse uses it (RoundTrip error / response / Body.Read / context cancellation surfaces from Read)"}
	register(&World{Name: "client", Level: "exploration", Rule: common + "Oracle: Last-Event-ID header and body of every attempt as a function of the attempt history (reference interpreter gives the last dispatched ID)." + nontriv, Real: real, Stub: stub, Assumptions: assum,
		MustProbes: []string{"reconnect carrying Last-Event-ID", "ErrNoGetBody"}, Run: runClientWorld}, "C10")
	register(&World{Name: "client", Level: "exploration", Rule: common + "Oracle: classification of Connect's return (never nil; context error iff cancelled; permanent errors at once; otherwise budget exhausted with the last attempt's error, read errors as themselves)." + nontriv, Real: real, Stub: stub, Assumptions: assum,
		MustProbes: []string{"cancellation in mid-line", "read error in mid-line", "clean end with nothing pending"}, Run: runClientWorld}, "C11")
	register(&World{Name: "client", Level: "exploration", Rule: common + "Oracle: reference back-off recurrence on the OnRetry values and the simulated instants of attempts." + nontriv, Real: real, Stub: stub, Assumptions: assum,
		MustProbes: []string{"back-off cap reached", "server retry value overrides the interval", "retry series reset after a successful connection", "Jitter -1 with at least one retry"}, Run: runClientWorld}, "C12")
	register(&World{Name: "client", Level: "exploration", Rule: common + "Subscriber tasks add and remove callbacks (SubscribeEvent / SubscribeMessages / SubscribeToAll, repeated and stale removers) before Connect and while events are delivered chunk by chunk; oracle: must / may / must-not sets per (callback, event) from the dispatch bracket, at most once, in order." + nontriv, Real: real, Stub: stub, Assumptions: append(assum, "data-race freedom is decided by the Eraser lockset discipline over the map accesses and pointer-field writes the instrumenter reports, using the scheduler's lock model (not by the Go race detector, which the simulator's own wake-ups would blind)"),
		MustProbes: []string{"callbacks and events in one run", "callback added while connected received events", "callback removed after receiving events"}, Run: runClientWorld}, "C13")
}
