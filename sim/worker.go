package sim

import (
	"encoding/json"
	"fmt"
	"os"
	"regexp"
	"strconv"
	"testing"
	"time"
)

// Found is a violation together with its minimised replay information.
type Found struct {
	Violation
	World       string   `json:"world"`
	Seed        uint64   `json:"seed"`
	RunIndex    uint64   `json:"run_index"`
	Trace       Trace    `json:"trace"` // per stream: generation, scheduling, select/map orders, I/O chunking
	OrigLen     int      `json:"original_trace_len"`
	ShrinkTests int      `json:"shrink_tests"`
	Log         []string `json:"log"`
	LogHash     string   `json:"log_hash"`
	Sample      any      `json:"case,omitempty"`
	// Hang: the run never came back (a call into go-sse spins or blocks outside the
	// simulator's view); the trace is what had been drawn until then, not minimised.
	Hang bool `json:"hang,omitempty"`
	// Sequence is set by the driver when the minimised trace does not reproduce in a
	// fresh process, i.e. the violation depends on state an earlier run of the same
	// worker process left behind (a package-level variable of go-sse): the replay then
	// re-executes that worker's runs 0..SeqRuns-1 in order.
	Sequence   bool `json:"sequence,omitempty"`
	SeqWorker  int  `json:"sequence_worker,omitempty"`
	SeqWorkers int  `json:"sequence_workers,omitempty"`
	SeqRuns    int  `json:"sequence_runs,omitempty"`
}

// WorkerResult is what one worker process reports to the driver.
type WorkerResult struct {
	Prop          string            `json:"property"`
	Seed          uint64            `json:"seed"`
	Worker        int               `json:"worker"`
	Evaluations   int               `json:"evaluations"`
	Nontrivial    int               `json:"nontrivial"`
	Keys          []uint64          `json:"keys"`
	KeysSaturated bool              `json:"keys_saturated"`
	States        []uint64          `json:"states"`
	Scheds        []uint64          `json:"scheds"`
	Faults        map[string]int    `json:"faults"`
	Probes        map[string]int    `json:"probes"`
	SimTimeS      float64           `json:"sim_time_s"`
	Steps         int64             `json:"steps"`
	Inconclusive  int               `json:"inconclusive"`
	Samples       []any             `json:"samples"`
	OtherProps    map[string]int    `json:"other_property_violations"`
	OtherSamples  map[string]string `json:"other_property_samples"`
	Known         map[string]int    `json:"known_findings"`
	Found         *Found            `json:"found,omitempty"`
	WallS         float64           `json:"wall_s"`
}

// KnownFinding is one entry of /verif/known_findings.json.
type KnownFinding struct {
	Status   string `json:"status"` // "known" or "fixed"
	Property string `json:"property"`
	Clause   string `json:"clause,omitempty"`
	Match    string `json:"match,omitempty"` // regexp on the violation detail
	Commit   string `json:"commit,omitempty"`
	What     string `json:"what"`
	re       *regexp.Regexp
}

type knownFile struct {
	Findings []KnownFinding `json:"findings"`
}

func loadKnown(path string) ([]KnownFinding, error) {
	if path == "" {
		return nil, nil
	}
	b, err := os.ReadFile(path)
	if err != nil {
		if os.IsNotExist(err) {
			return nil, nil
		}
		return nil, err
	}
	var kf knownFile
	if err := json.Unmarshal(b, &kf); err != nil {
		return nil, err
	}
	var out []KnownFinding
	for _, f := range kf.Findings {
		if f.Status != "known" {
			continue // a fixed entry suppresses nothing
		}
		if f.Match != "" {
			re, err := regexp.Compile(f.Match)
			if err != nil {
				return nil, err
			}
			f.re = re
		}
		out = append(out, f)
	}
	return out, nil
}

func matchKnown(known []KnownFinding, v Violation) *KnownFinding {
	for i := range known {
		k := &known[i]
		if k.Property != v.Prop {
			continue
		}
		if k.Clause != "" && k.Clause != v.Clause {
			continue
		}
		if k.re != nil && !k.re.MatchString(v.Detail) {
			continue
		}
		return k
	}
	return nil
}

func envInt(name string, def int) int {
	if v := os.Getenv(name); v != "" {
		if n, err := strconv.Atoi(v); err == nil {
			return n
		}
	}
	return def
}

func envU64(name string, def uint64) uint64 {
	if v := os.Getenv(name); v != "" {
		if n, err := strconv.ParseUint(v, 10, 64); err == nil {
			return n
		}
		if n, err := strconv.ParseInt(v, 10, 64); err == nil {
			return uint64(n)
		}
	}
	return def
}

const maxKeys = 400000

// first violation of prop in o that is not a known finding
func pickViolation(o *Outcome, prop string, known []KnownFinding, res *WorkerResult) *Violation {
	var pick *Violation
	for i := range o.Violations {
		v := &o.Violations[i]
		if v.Prop != prop {
			if res != nil {
				res.OtherProps[v.Prop]++
				if _, ok := res.OtherSamples[v.Prop]; !ok {
					res.OtherSamples[v.Prop] = v.Clause + ": " + v.Detail
				}
			}
			continue
		}
		if k := matchKnown(known, *v); k != nil {
			if res != nil {
				res.Known[k.What]++
			}
			continue
		}
		if pick == nil {
			pick = v
		}
	}
	return pick
}

// hangLimit is the wall-clock time one simulated run may take (runs take
// milliseconds). A run that exceeds it is stuck inside go-sse in a way the
// simulator cannot see (a loop that never yields); it is reported as a
// violation only if the driver reproduces the hang in a fresh process.
const hangLimit = 20 * time.Second

// runGuarded executes one run with the wall-clock guard.
func runGuarded(w *World, rc *RunCtx) (o *Outcome, hung bool) {
	done := make(chan *Outcome, 1)
	go func() { done <- w.Run(rc) }()
	select {
	case o := <-done:
		return o, false
	case <-time.After(hangLimit):
		return nil, true
	}
}

func hangViolation(prop string) Violation {
	return Violation{Prop: prop, Clause: "no-return", Detail: fmt.Sprintf("a call into go-sse did not return: the simulated run was still going after %v of wall-clock time (runs take milliseconds) and none of its goroutines reached a scheduling point", hangLimit)}
}

// WorkerMain is the body of the test binary's single test (see worker_test.go).
func WorkerMain(t *testing.T) {
	prop := os.Getenv("VERIF_PROP")
	if prop == "" {
		t.Skip("VERIF_PROP not set: this binary is driven by /verif/check")
	}
	w := registry[prop]
	if w == nil {
		fmt.Fprintf(os.Stderr, "no world registered for %s\n", prop)
		os.Exit(2)
	}
	known, err := loadKnown(os.Getenv("VERIF_KNOWN"))
	if err != nil {
		fmt.Fprintf(os.Stderr, "known findings: %v\n", err)
		os.Exit(2)
	}
	tier := os.Getenv("VERIF_TIER")
	if tier == "" {
		tier = "quick"
	}
	if ip := os.Getenv("VERIF_INFO"); ip != "" {
		writeJSON(ip, map[string]any{"name": w.Name, "level": w.Level, "rule": w.Rule, "real": w.Real, "stub": w.Stub, "assumptions": w.Assumptions, "must_probes": w.MustProbes})
		return
	}
	if dn := envInt("VERIF_DETERMINISM", 0); dn > 0 {
		seed := envU64("VERIF_SEED", 1)
		hashes := make([]string, 0, dn)
		for i := 0; i < dn; i++ {
			var h [2]uint64
			for k := 0; k < 2; k++ {
				o := w.Run(&RunCtx{T: t, Ch: NewSearchChooser(seed, uint64(i)), Prop: prop, Tier: tier, KeepLog: true})
				h[k] = o.LogHash
			}
			if h[0] != h[1] {
				hashes = append(hashes, fmt.Sprintf("in-process mismatch %016x/%016x", h[0], h[1]))
			} else {
				hashes = append(hashes, fmt.Sprintf("%016x", h[0]))
			}
		}
		writeJSON(os.Getenv("VERIF_OUT"), hashes)
		return
	}
	if rp := os.Getenv("VERIF_REPLAY"); rp != "" {
		replayMain(t, w, prop, tier, rp)
		return
	}
	seed := envU64("VERIF_SEED", 1)
	worker := envInt("VERIF_WORKER", 0)
	nworkers := envInt("VERIF_WORKERS", 1)
	seconds := envInt("VERIF_SECONDS", 10)
	maxRuns := envInt("VERIF_MAXRUNS", 0)
	shrinkS := envInt("VERIF_SHRINK_SECONDS", 30)
	out := os.Getenv("VERIF_OUT")

	res := &WorkerResult{Prop: prop, Seed: seed, Worker: worker, Faults: map[string]int{}, Probes: map[string]int{}, OtherProps: map[string]int{}, OtherSamples: map[string]string{}, Known: map[string]int{}}
	keys := map[uint64]struct{}{}
	states := map[uint64]struct{}{}
	scheds := map[uint64]struct{}{}
	start := time.Now()
	deadline := start.Add(time.Duration(seconds) * time.Second)
	for n := 0; ; n++ {
		if maxRuns > 0 && n >= maxRuns {
			break
		}
		if n&7 == 0 && time.Now().After(deadline) {
			break
		}
		idx := uint64(n)*uint64(nworkers) + uint64(worker)
		ch := NewSearchChooser(seed, idx)
		o, hung := runGuarded(w, &RunCtx{T: t, Ch: ch, Prop: prop, Tier: tier})
		if hung {
			res.Evaluations++
			trace := ch.Rec.clone()
			f := &Found{World: w.Name, Seed: seed, RunIndex: idx, Trace: trace, OrigLen: trace.Len(), Hang: true, LogHash: "hang"}
			f.Violation = hangViolation(prop)
			res.Found = f
			break
		}
		res.Evaluations++
		for k, v := range o.Faults {
			res.Faults[k] += v
		}
		for k, v := range o.Probes {
			res.Probes[k] += v
		}
		res.SimTimeS += o.SimTime.Seconds()
		res.Steps += int64(o.Steps)
		if o.Inconclusive {
			res.Inconclusive++
		}
		if o.Nontrivial {
			res.Nontrivial++
			if len(keys) < maxKeys {
				keys[o.Key] = struct{}{}
			} else {
				res.KeysSaturated = true
			}
		}
		if o.Sched != 0 && len(scheds) < maxKeys {
			scheds[o.Sched] = struct{}{}
		}
		for _, s := range o.States {
			if len(states) < maxKeys {
				states[s] = struct{}{}
			}
		}
		if len(res.Samples) < 3 && o.Sample != nil && o.Nontrivial {
			res.Samples = append(res.Samples, o.Sample)
		}
		if v := pickViolation(o, prop, known, res); v != nil {
			res.Found = minimise(t, w, prop, tier, known, *v, ch.Rec, seed, idx, time.Duration(shrinkS)*time.Second)
			break
		}
	}
	for k := range keys {
		res.Keys = append(res.Keys, k)
	}
	for k := range states {
		res.States = append(res.States, k)
	}
	for k := range scheds {
		res.Scheds = append(res.Scheds, k)
	}
	res.WallS = time.Since(start).Seconds()
	writeJSON(out, res)
}

func writeJSON(path string, v any) {
	b, err := json.Marshal(v)
	if err != nil {
		fmt.Fprintf(os.Stderr, "marshal: %v\n", err)
		os.Exit(2)
	}
	if path == "" {
		os.Stdout.Write(b)
		return
	}
	if err := os.WriteFile(path, b, 0o644); err != nil {
		fmt.Fprintf(os.Stderr, "write %s: %v\n", path, err)
		os.Exit(2)
	}
}

func minimise(t *testing.T, w *World, prop, tier string, known []KnownFinding, v Violation, trace Trace, seed, idx uint64, budget time.Duration) *Found {
	test := func(cand Trace) (Trace, bool) {
		ch := NewReplayChooser(cand)
		o := w.Run(&RunCtx{T: t, Ch: ch, Prop: prop, Tier: tier})
		for _, x := range o.Violations {
			if x.Prop == v.Prop && x.Clause == v.Clause && matchKnown(known, x) == nil {
				return ch.Rec, true
			}
		}
		return nil, false
	}
	min, tests := shrinkTrace(trace, test, budget)
	// final run with the full log
	ch := NewReplayChooser(min)
	ch.Keep = true
	o := w.Run(&RunCtx{T: t, Ch: ch, Prop: prop, Tier: tier, KeepLog: true})
	f := &Found{World: w.Name, Seed: seed, RunIndex: idx, Trace: min, OrigLen: trace.Len(), ShrinkTests: tests, Log: o.Log, LogHash: fmt.Sprintf("%016x", o.LogHash), Sample: o.Sample}
	f.Violation = v
	for _, x := range o.Violations {
		if x.Prop == v.Prop && x.Clause == v.Clause && matchKnown(known, x) == nil {
			f.Violation = x
			break
		}
	}
	return f
}

// replayMain re-runs a replay file and reports whether it reproduces.
func replayMain(t *testing.T, w *World, prop, tier, path string) {
	b, err := os.ReadFile(path)
	if err != nil {
		fmt.Fprintf(os.Stderr, "replay: %v\n", err)
		os.Exit(2)
	}
	var f Found
	if err := json.Unmarshal(b, &f); err != nil {
		fmt.Fprintf(os.Stderr, "replay: %v\n", err)
		os.Exit(2)
	}
	if f.Hang {
		_, hung := runGuarded(w, &RunCtx{T: t, Ch: NewReplayChooser(f.Trace), Prop: prop, Tier: tier, KeepLog: true})
		type rep struct {
			Reproduced bool     `json:"reproduced"`
			SameLog    bool     `json:"same_log"`
			Violation  string   `json:"violation"`
			Log        []string `json:"log"`
		}
		r := rep{Reproduced: hung, SameLog: hung}
		if hung {
			r.Violation = hangViolation(f.Prop).String()
		}
		writeJSON(os.Getenv("VERIF_OUT"), r)
		return
	}
	var o *Outcome
	if f.Sequence {
		for n := 0; n < f.SeqRuns; n++ {
			idx := uint64(n)*uint64(f.SeqWorkers) + uint64(f.SeqWorker)
			o = w.Run(&RunCtx{T: t, Ch: NewSearchChooser(f.Seed, idx), Prop: prop, Tier: tier, KeepLog: n == f.SeqRuns-1})
		}
	} else {
		o = w.Run(&RunCtx{T: t, Ch: NewReplayChooser(f.Trace), Prop: prop, Tier: tier, KeepLog: true})
	}
	type rep struct {
		Reproduced bool     `json:"reproduced"`
		SameLog    bool     `json:"same_log"`
		Violation  string   `json:"violation"`
		Log        []string `json:"log"`
	}
	r := rep{Log: o.Log}
	for _, x := range o.Violations {
		if x.Prop == f.Prop && x.Clause == f.Clause {
			r.Reproduced = true
			r.Violation = x.String()
			break
		}
	}
	r.SameLog = fmt.Sprintf("%016x", o.LogHash) == f.LogHash
	writeJSON(os.Getenv("VERIF_OUT"), r)
}
