package sim

import (
	"fmt"
	"reflect"
	"strings"

	sse "github.com/tmaxmax/go-sse"
)

// subCall is one call made on a simulated subscriber.
type subCall struct {
	Flush bool
	Msg   *sse.Message
	Err   error
	Step  int
}

// simSub is a simulated subscriber (sse.MessageWriter) with a fault plan.
type simSub struct {
	ID          int
	Calls       []subCall
	FailSendAt  int // 1-based index of the Send that fails (0: never)
	FailFlushAt int // 1-based index of the Flush that fails (0: never)
	sends       int
	flushes     int
	Failed      error
	// Sticky: once a call failed every later call fails too (a broken connection stays broken).
	Sticky bool
	// FlushOnly: with Sticky, only Flush keeps failing (writes are buffered, the flush hits the broken connection).
	FlushOnly bool
	// Disguise: the injected failures also match this sentinel under errors.Is (nil: plain).
	Disguise error
	// OnCall runs inside every call, before it returns (scheduling point,
	// self-cancellation, logging).
	OnCall func(s *simSub, flush bool, m *sse.Message, err error)
}

func (s *simSub) Send(m *sse.Message) error {
	s.sends++
	var err error
	if s.FailSendAt > 0 && s.sends == s.FailSendAt {
		err = newInjectedAs(fmt.Sprintf("sub%d send#%d", s.ID, s.sends), s.Disguise)
		s.Failed = err
	} else if s.Sticky && s.Failed != nil && !s.FlushOnly {
		err = s.Failed
	}
	s.Calls = append(s.Calls, subCall{Msg: m, Err: err})
	if s.OnCall != nil {
		s.OnCall(s, false, m, err)
	}
	return err
}

func (s *simSub) Flush() error {
	s.flushes++
	var err error
	if s.FailFlushAt > 0 && s.flushes == s.FailFlushAt {
		err = newInjectedAs(fmt.Sprintf("sub%d flush#%d", s.ID, s.flushes), s.Disguise)
		s.Failed = err
	} else if s.Sticky && s.Failed != nil {
		err = s.Failed
	}
	s.Calls = append(s.Calls, subCall{Flush: true, Err: err})
	if s.OnCall != nil {
		s.OnCall(s, true, nil, err)
	}
	return err
}

// Sent returns the messages passed to Send, in order.
func (s *simSub) Sent() []*sse.Message {
	var out []*sse.Message
	for _, c := range s.Calls {
		if !c.Flush {
			out = append(out, c.Msg)
		}
	}
	return out
}

// msgTag returns the unique payload tag of a generated message ("" if none).
func msgTag(m *sse.Message) string {
	if m == nil {
		return "<nil>"
	}
	s := m.String()
	for _, line := range strings.Split(s, "\n") {
		if strings.HasPrefix(line, "data: ") {
			return strings.TrimPrefix(line, "data: ")
		}
	}
	return ""
}

func topicsIntersect(a, b []string) bool {
	for _, x := range a {
		for _, y := range b {
			if x == y {
				return true
			}
		}
	}
	return false
}

var topicUniverse = []string{sse.DefaultTopic, "a", "b", "c"}

// wideTopics is a universe of a hundred topic names (plus DefaultTopic) for runs with large topic
// sets: dozens of topics per subscription, more distinct topics over a provider's lifetime than
// fit a machine word.
var wideTopics = func() []string {
	out := []string{sse.DefaultTopic}
	for i := 0; i < 100; i++ {
		out = append(out, fmt.Sprintf("t%02d", i))
	}
	return out
}()

// genTopicsWide draws a topic set of a drawn size (1 … 90) from wideTopics; small sets for
// messages, any size for subscriptions.
func genTopicsWide(ch *Chooser, label string, forMessage bool) []string {
	sizes := []int{1, 2, 3, 16, 17, 40, 64, 65, 66, 90}
	n := sizes[ch.Intn(len(sizes), label+" topic count")]
	if forMessage {
		n = 1 + ch.Intn(3, label+" topic count")
	}
	start := ch.Intn(len(wideTopics), label+" first topic")
	stride := []int{1, 7, 13}[ch.Intn(3, label+" topic stride")] // coprime to 101
	out := make([]string, 0, n)
	for i := 0; i < n; i++ {
		out = append(out, wideTopics[(start+i*stride)%len(wideTopics)])
	}
	return out
}

// genTopics draws a non-empty topic set.
func genTopics(ch *Chooser, label string) []string {
	var out []string
	first := ch.Intn(len(topicUniverse), label+" first topic")
	out = append(out, topicUniverse[first])
	for i, t := range topicUniverse {
		if i != first && ch.Chance(1, 4, label+" extra topic") {
			out = append(out, t)
		}
	}
	if ch.Chance(1, 12, label+" duplicate topic") {
		out = append(out, out[0]) // the same topic listed twice is still one match
	}
	if ch.Chance(1, 10, label+" odd topic name") {
		// names that look like several of the usual ones glued together with a likely separator:
		// a topic set is a set of strings, not of characters
		odd := []string{"a\x1fb", "a,b", "a b", "ab", "a\x00b", "a|b", " ", "a\nb"}
		out = append(out, odd[ch.Intn(len(odd), label+" odd topic")])
	}
	return out
}

// reachableMessages walks everything reachable from root (pointers, structs,
// interfaces, maps, arrays, slices up to their capacity) and returns the set of
// *sse.Message pointers found. It uses no field names.
func reachableMessages(root any) map[uintptr]bool {
	found := map[uintptr]bool{}
	type key struct {
		t reflect.Type
		p uintptr
	}
	seen := map[key]bool{}
	msgType := reflect.TypeOf((*sse.Message)(nil))
	var walk func(v reflect.Value, depth int)
	walk = func(v reflect.Value, depth int) {
		if !v.IsValid() || depth > 12 {
			return
		}
		switch v.Kind() {
		case reflect.Ptr:
			if v.IsNil() {
				return
			}
			if v.Type() == msgType {
				found[v.Pointer()] = true
				return
			}
			k := key{v.Type(), v.Pointer()}
			if seen[k] {
				return
			}
			seen[k] = true
			if pk := v.Type().Elem().PkgPath(); pk != "" && !strings.Contains(pk, "go-sse") {
				return // foreign types (time.Location, …) hold no messages
			}
			walk(v.Elem(), depth+1)
		case reflect.Interface:
			if !v.IsNil() {
				walk(v.Elem(), depth+1)
			}
		case reflect.Struct:
			if pk := v.Type().PkgPath(); pk != "" && !strings.Contains(pk, "go-sse") {
				return
			}
			for i := 0; i < v.NumField(); i++ {
				walk(v.Field(i), depth+1)
			}
		case reflect.Slice:
			if v.IsNil() {
				return
			}
			full := v
			if v.Cap() > v.Len() {
				full = v.Slice(0, v.Cap())
			}
			for i := 0; i < full.Len(); i++ {
				walk(full.Index(i), depth+1)
			}
		case reflect.Array:
			for i := 0; i < v.Len(); i++ {
				walk(v.Index(i), depth+1)
			}
		case reflect.Map:
			it := v.MapRange()
			for it.Next() {
				walk(it.Key(), depth+1)
				walk(it.Value(), depth+1)
			}
		}
	}
	walk(reflect.ValueOf(root), 0)
	return found
}

// ringState reads, by reflection and by the field names of the pinned tree, the head index,
// element count and size of a replayer's ring buffer. It feeds reach probes only ("did a run
// grow the ring while it was wrapped?"), never an oracle; on a tree with other names ok is false.
func ringState(replayer any) (head, count, size int, ok bool) {
	v := reflect.ValueOf(replayer)
	for v.IsValid() && (v.Kind() == reflect.Ptr || v.Kind() == reflect.Interface) {
		if v.IsNil() {
			return 0, 0, 0, false
		}
		v = v.Elem()
	}
	if !v.IsValid() || v.Kind() != reflect.Struct {
		return 0, 0, 0, false
	}
	q := v.FieldByName("messages")
	if !q.IsValid() {
		q = v.FieldByName("buf") // FiniteReplayer
	}
	if !q.IsValid() || q.Kind() != reflect.Struct {
		return 0, 0, 0, false
	}
	h, c, b := q.FieldByName("head"), q.FieldByName("count"), q.FieldByName("buf")
	if !h.IsValid() || !c.IsValid() || !b.IsValid() || h.Kind() != reflect.Int || c.Kind() != reflect.Int || b.Kind() != reflect.Slice {
		return 0, 0, 0, false
	}
	return int(h.Int()), int(c.Int()), b.Len(), true
}
