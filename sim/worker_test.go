package sim

import "testing"

// TestWorker is the entry point used by /verif/check; see worker.go.
func TestWorker(t *testing.T) { WorkerMain(t) }
