package sim

import (
	"errors"
	"fmt"
	"io"
	"math"
	"strings"

	sse "github.com/tmaxmax/go-sse"
)

// Limits world (DESIGN.md C20): endless generators and finite streams with
// events sized around 4 KiB, 64 KiB and the configured limit, fed through a
// counting reader in chooser-sized chunks.

// genReader produces prefix ++ unit ++ unit ++ … (endless when unit != "").
type genReader struct {
	eofWithData bool // finite streams: the final Read returns its bytes together with the end (io.Reader allows it)
	prefix      []byte
	unit        []byte
	pulled      int
	hardCap     int
	overCap     bool
	ch          *Chooser
	chunkMax    int
	endErr      error // for finite streams
}

func (g *genReader) byteAt(i int) byte {
	if i < len(g.prefix) {
		return g.prefix[i]
	}
	return g.unit[(i-len(g.prefix))%len(g.unit)]
}

func (g *genReader) Read(p []byte) (int, error) {
	if len(g.unit) == 0 && g.pulled >= len(g.prefix) {
		return 0, g.endErr
	}
	if g.pulled >= g.hardCap {
		g.overCap = true
		return 0, newInjected("hard cap of the endless generator reached")
	}
	n := len(p)
	switch g.ch.Weighted([]int{3, 2, 3}, "chunk class") {
	case 0:
	case 1:
		n = 1 + g.ch.Intn(7, "tiny chunk")
	case 2:
		n = 1 + g.ch.Intn(g.chunkMax, "chunk")
	}
	if n > len(p) {
		n = len(p)
	}
	if len(g.unit) == 0 && n > len(g.prefix)-g.pulled {
		n = len(g.prefix) - g.pulled
	}
	for i := 0; i < n; i++ {
		p[i] = g.byteAt(g.pulled + i)
	}
	g.pulled += n
	if g.eofWithData && len(g.unit) == 0 && g.pulled >= len(g.prefix) {
		return n, g.endErr
	}
	return n, nil
}

func runLimitsWorld(rc *RunCtx) *Outcome {
	o := newOutcome()
	ch := rc.Ch
	var desc string
	defer func() {
		h := newHasher()
		h.str(desc)
		o.Key = uint64(h)
		o.LogHash = uint64(h)
		if rc.KeepLog {
			o.Log = []string{desc}
		}
		o.Sample = map[string]any{"case": desc}
	}()

	// configuration: limit and entry point
	entry := "Read"
	if ch.Chance(1, 3, "connection entry") {
		entry = "Connection"
	}
	limits := []int{0, 16, 64, 100, 4096, 5000, 65536, 131072}
	limit := limits[ch.Weighted([]int{4, 2, 3, 2, 2, 2, 1, 1}, "limit")]
	// "no limit to speak of": the idiom for unlimited events is a maximum nobody will ever reach
	huge := ch.Chance(1, 12, "practically unlimited maximum")
	if huge {
		limit = []int{math.MaxInt, 1 << 50, math.MaxInt32}[ch.Intn(3, "huge maximum")]
		o.probe("practically unlimited maximum event size")
	}
	var buf []byte
	effective := limit
	if limit == 0 {
		effective = defaultMaxEvent
	}
	if !huge && entry == "Connection" && ch.Chance(1, 3, "caller buffer") {
		bufCap := 0
		if limit > 0 {
			bufCap = []int{8, 64, limit / 2, limit, limit * 2}[ch.Intn(5, "buffer capacity")]
		} else {
			// a maximum that is not above cap(buf) means "scan in this buffer only, never allocate"
			bufCap = []int{64, 1000, 4096, 100000, 200000}[ch.Intn(5, "buffer capacity without maximum")]
			if ch.Chance(1, 3, "negative maximum") {
				limit = -1
			}
			effective = bufCap
			o.probe("caller buffer without a maximum")
		}
		if bufCap < 1 {
			bufCap = 1
		}
		buf = make([]byte, 0, bufCap)
		if bufCap > effective {
			effective = bufCap // bufio.Scanner.Buffer: the larger of max and cap(buf)
		}
	}

	eol := []string{"\n", "\r\n", "\r"}[ch.Intn(3, "eol")]
	g := &genReader{ch: ch, chunkMax: 2 * effective, hardCap: 6*effective + 1<<16, endErr: io.EOF}
	kind := ch.Weighted([]int{2, 2, 2, 2, 6}, "stream kind")
	if huge {
		// nothing is oversized under such a maximum: finite streams only, sizes around the usual marks
		g.chunkMax, g.hardCap = 1<<17, 1<<40
		kind = 4
	}
	var sb strings.Builder
	// a few small complete events first
	nPre := ch.Range(0, 3, "complete events first")
	if ch.Chance(1, 6, "many complete events first") {
		nPre = ch.Range(4, 40, "many complete events") // more bytes of small events than the limit, possibly in one read
	}
	for i := 0; i < nPre; i++ {
		sb.WriteString(fmt.Sprintf("id: %d%sdata: pre%d%s%s", i, eol, i, eol, eol))
	}
	endless := true
	switch kind {
	case 0:
		g.unit = []byte("x") // one endless line
		sb.WriteString("data: ")
		desc = "endless line"
	case 1:
		g.unit = []byte(": tick" + eol)
		desc = "endless comment lines"
	case 2:
		g.unit = []byte(eol)
		desc = "endless blank lines"
	case 3:
		g.unit = []byte("data: more" + eol)
		desc = "endless field lines without a blank line"
	default:
		endless = false
		// finite: events sized around interesting boundaries
		if !huge && ch.Chance(1, 5, "run of keep-alive blocks longer than the limit") && effective <= 70000 {
			// each comment-only block is a complete, tiny block of its own: however many follow each
			// other, nothing is oversized
			n := effective/len(": ka"+eol+eol) + ch.Range(1, 20, "extra keep-alives")
			sb.WriteString(strings.Repeat(": ka"+eol+eol, n))
			o.probe("more bytes of consecutive keep-alive blocks than the limit")
		}
		nEv := ch.Range(1, 4, "sized events")
		for i := 0; i < nEv; i++ {
			targets := []int{effective - 2, effective - 1, effective, effective + 1, effective + 2, effective / 2, 4094, 4096, 4097, 65535, 65536, 65537, 10}
			if huge {
				targets = []int{10, 4094, 4096, 4097, 65535, 65536, 65537, 200000, 10, 4096, 65536, 70000, 100}
			}
			target := targets[ch.Intn(len(targets), "event size")]
			if target < 8 {
				target = 8
			}
			lead := ch.Weighted([]int{4, 1, 1}, "leading blank lines")
			head := strings.Repeat(eol, lead) + "data: "
			tail := eol + eol
			fill := target - len(head) - len(tail)
			if fill < 0 {
				fill = 0
			}
			sb.WriteString(head + strings.Repeat("z", fill) + tail)
			if ch.Chance(1, 4, "keep-alive comment block between events") {
				sb.WriteString(": ping" + eol + eol)
			}
		}
		g.eofWithData = ch.Chance(1, 3, "end reported together with the last bytes")
		desc = "finite stream with sized events"
	}
	g.prefix = []byte(sb.String())
	desc = fmt.Sprintf("%s entry=%s limit=%d cap(buf)=%d effective=%d eol=%q prefixLen=%d", desc, entry, limit, cap(buf), effective, eol, len(g.prefix))
	if endless {
		o.fault("endless generator")
	} else {
		o.fault("events sized around a buffer boundary")
	}

	// reference: what is prescribed for the bytes of the prefix (finite) or of a long enough prefix (endless)
	refBytes := g.prefix
	if endless {
		ext := make([]byte, 0, len(g.prefix)+2*effective)
		ext = append(ext, g.prefix...)
		for len(ext) < len(g.prefix)+2*effective+16 {
			ext = append(ext, g.unit...)
		}
		refBytes = ext
	}
	conn := entry == "Connection"
	ref := RefInterpret(refBytes, "", conn)

	var obs streamObs
	pulled, overCap := 0, false
	if entry == "Read" {
		var cfg *sse.ReadConfig
		if limit > 0 {
			cfg = &sse.ReadConfig{MaxEventSize: limit}
		}
		var between func()
		if ch.Chance(1, 3, "second loop over the sequence") {
			// the bounds below are about the first loop: take the counters when it has ended
			between = func() { pulled, overCap = g.pulled, g.overCap }
			o.probe("Read sequence ranged over twice")
		}
		obs = runReadAgain(g, cfg, -1, between)
		if between == nil || pulled == 0 && !overCap {
			pulled, overCap = g.pulled, g.overCap // between was not reached (the first loop panicked)
		}
	} else {
		if ch.Chance(1, 3, "on the second attempt of the connection") {
			obs = runConnWarm(g, buf, limit)
			o.probe("stream served on a reconnection")
		} else {
			obs, _ = runConn(g, buf, limit)
		}
		pulled, overCap = g.pulled, g.overCap
	}
	if obs.panicked != nil {
		o.violate("C20", "panic", "%s: panic %v", desc, obs.panicked)
		return o
	}
	// never a truncated or partially parsed event: delivered events are a prefix of the prescribed ones
	if !isPrefix(obs.events, ref.Events) {
		o.violate("C20", "truncated-event", "%s: delivered %s, which is not a prefix of the prescribed events (%d prescribed)", desc, describeEventsShort(obs.events), len(ref.Events))
		return o
	}
	// memory bound: bytes pulled beyond the end of the last delivered event's block
	lastEnd := 0
	if n := len(obs.events); n > 0 {
		lastEnd = ref.End[n-1]
	}
	// blocks that hold no event (comment-only keep-alives) right after the last delivered event are
	// complete tokens as well: the parser has consumed them before it meets what does not fit
	isEventEnd := map[int]bool{}
	for _, e := range ref.End {
		isEventEnd[e] = true
	}
	for _, be := range ref.BlockEnds {
		if be > lastEnd && !isEventEnd[be] && be-lastEnd <= effective {
			lastEnd = be
		} else if be > lastEnd {
			break
		}
	}
	slack := 8
	if overCap {
		o.violate("C20", "unbounded-read", "%s: the parser kept reading an endless stream: %d bytes pulled without an error (limit %d)", desc, pulled, effective)
		return o
	}
	tooLong := obs.err != nil && strings.Contains(obs.err.Error(), "token too long")
	if !huge && obs.err != nil && pulled-lastEnd > effective+slack {
		o.violate("C20", "read-beyond-limit", "%s: %d bytes were pulled beyond the last completed event (ending at offset %d) before the error %v; limit %d", desc, pulled-lastEnd, lastEnd, obs.err, effective)
		return o
	}
	if endless && obs.err == nil {
		o.violate("C20", "endless-without-error", "%s: an endless stream ended without an error after %d bytes", desc, pulled)
		return o
	}
	// intact below the limit
	if !endless {
		if ref.MaxSpan < effective {
			if !eventsEqual(obs.events, ref.Events) || (tooLong) {
				o.violate("C20", "below-limit-not-delivered", "%s: every block is smaller than the limit (largest %d) but %d of %d events were delivered, error %v", desc, ref.MaxSpan, len(obs.events), len(ref.Events), obs.err)
				return o
			}
			o.probe("all events below the limit delivered")
		} else if tooLong {
			o.probe("oversized event rejected")
		}
		if ref.MaxSpan >= effective-2 && ref.MaxSpan <= effective+2 {
			o.probe("event within 2 bytes of the limit")
		}
	} else if tooLong {
		o.probe("endless stream stopped by the limit")
	}
	_ = errors.Is
	o.Nontrivial = true
	sh := newHasher()
	sh.int(kind)
	sh.int(limit)
	sh.int(b2i(tooLong))
	sh.str(entry)
	o.States = append(o.States, uint64(sh))
	return o
}

func describeEventsShort(evs []RefEvent) string {
	var parts []string
	for _, e := range evs {
		d := e.Data
		if len(d) > 24 {
			d = fmt.Sprintf("%s…(%d bytes)", d[:24], len(d))
		}
		parts = append(parts, fmt.Sprintf("{id=%q data=%q}", e.ID, d))
	}
	return "[" + strings.Join(parts, " ") + "]"
}

func init() {
	register(&World{
		Name: "limits", Level: "exploration",
		Rule: "each evaluation draws an entry point (Read with MaxEventSize, possibly ranged over twice / Connection.Buffer with or without a caller buffer, with or without a maximum, on the first or the second attempt of the connection), a limit (default, 16 B … 128 KiB), a line ending and either an endless generator (one endless line, endless comments, endless blank lines, endless field lines) after 0-3 (sometimes 4-40) complete events, or a finite stream of events sized within 2 bytes of 4 KiB, 64 KiB and the limit, with or without leading blank lines; all served through a counting reader in chooser-sized chunks (1 byte … twice the limit). " +
			"Non-trivial: every case; distinct = distinct (kind, configuration, sizes).",
		Real:        []string{"sse.Read, ReadConfig.MaxEventSize", "Connection.Buffer + Connect (single attempt)", "internal/parser with bufio.Scanner"},
		Stub:        []string{"counting io.Reader over an endless generator or a sized finite stream", "http.RoundTripper returning one scripted response"},
		Assumptions: []string{"for Connection.Buffer the limit is the larger of maxSize and cap(buf), as bufio.Scanner.Buffer documents", "a slack of 8 bytes on the read bound (line terminators around the cut)"},
		MustProbes:  []string{"caller buffer without a maximum", "endless stream stopped by the limit", "all events below the limit delivered", "oversized event rejected", "event within 2 bytes of the limit"},
		Run:         runLimitsWorld,
	}, "C20")
}
