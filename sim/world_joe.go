package sim

import (
	"context"
	"errors"
	"fmt"
	"math"
	"strconv"
	"strings"
	"testing"
	"testing/synctest"
	"time"

	sse "github.com/tmaxmax/go-sse"
	"github.com/tmaxmax/go-sse/verifhook"
)

// Joe world (DESIGN.md 3): one real Joe, a recording / fault-injecting
// replayer wrapper over an optional real replayer, publisher, subscriber,
// canceller and Shutdown tasks, all interleaved by the seeded scheduler.

// ---------------------------------------------------------------- replayer wrapper (witness + faults)

type lEntry struct {
	tag      string // unique per publish: the payload tag, "~k"-qualified for the k-th publish of the same *Message
	base     string // payload tag as a subscriber sees it
	topics   []string
	in       *sse.Message
	out      *sse.Message // message that is fanned out (returned by Put, or the original on error)
	id       string
	err      error
	panicked bool
	seq      int
	stored   bool          // reached the real replayer successfully
	at       time.Duration // simulated instant of the Put
}

type replayCall struct {
	sub      *joeSub
	lpos     int // number of Put calls before this Replay call
	seq      int
	err      error
	panicked bool
}

type simReplayer struct {
	w        *joeWorld
	inner    sse.Replayer
	puts     []lEntry
	replays  []replayCall
	putN     int
	replayN  int
	panicked bool
	panicSeq int // world sequence number at the panic
	afterPan int // calls reaching the wrapper after it panicked

	failPutAt, panicPutAt       int
	failReplayAt, panicReplayAt int
	inCall                      bool
	concurrent                  int
}

func (r *simReplayer) enter(what string) {
	if r.inCall {
		r.concurrent++
	}
	r.inCall = true
	if r.panicked {
		r.afterPan++
	}
}

func (r *simReplayer) Put(m *sse.Message, topics []string) (out *sse.Message, err error) {
	r.enter("Put")
	defer func() { r.inCall = false }()
	r.putN++
	w := r.w
	e := lEntry{tag: msgTag(m), base: msgTag(m), topics: topics, in: m, out: m, seq: w.tick(), at: w.sim.Elapsed()}
	if pm := w.curPub[m]; pm != nil {
		e.tag = pm.tag // the publish call this Put belongs to (the same *Message may be published repeatedly)
	}
	idx := len(r.puts)
	r.puts = append(r.puts, e)
	w.sim.Logf("Put", "L[%d]=%s topics=%s", idx, e.tag, fmtTopics(topics))
	if r.panicPutAt > 0 && r.putN == r.panicPutAt {
		r.puts[idx].panicked = true
		r.panicked = true
		r.panicSeq = w.tick()
		w.o.fault("replayer Put panics")
		w.sim.Log("fault", "Put panics")
		panic(w.panicValue("Put"))
	}
	if r.failPutAt > 0 && r.putN == r.failPutAt {
		err = newInjected(fmt.Sprintf("put#%d", r.putN))
		r.puts[idx].err = err
		w.o.fault("replayer Put returns an error")
		w.sim.Log("fault", "Put returns error")
		return nil, err
	}
	if r.inner == nil {
		r.puts[idx].id = m.ID.String()
		return m, nil
	}
	out, err = r.inner.Put(m, topics)
	if err != nil {
		r.puts[idx].err = err
		return out, err
	}
	r.puts[idx].stored = true
	if out != nil {
		r.puts[idx].out = out
		r.puts[idx].id = out.ID.String()
	}
	return out, err
}

func (r *simReplayer) Replay(sub sse.Subscription) error {
	r.enter("Replay")
	defer func() { r.inCall = false }()
	r.replayN++
	w := r.w
	js := w.subOf(sub.Client)
	rc := replayCall{sub: js, lpos: len(r.puts), seq: w.tick()}
	if js != nil {
		js.accepted = rc.seq
		js.acceptLpos = rc.lpos
		js.acceptAt = w.sim.Elapsed()
		w.accepted++
		w.sim.Logf("Replay", "sub%d accepted at |L|=%d lastID=%q", js.id, rc.lpos, sub.LastEventID.String())
	}
	if r.panicReplayAt > 0 && r.replayN == r.panicReplayAt {
		rc.panicked = true
		r.replays = append(r.replays, rc)
		r.panicked = true
		r.panicSeq = w.tick()
		w.o.fault("replayer Replay panics")
		w.sim.Log("fault", "Replay panics")
		panic(w.panicValue("Replay"))
	}
	if r.failReplayAt > 0 && r.replayN == r.failReplayAt {
		rc.err = newInjected(fmt.Sprintf("replay#%d", r.replayN))
		r.replays = append(r.replays, rc)
		if js != nil {
			js.replayErr = rc.err
		}
		w.o.fault("replayer Replay returns an error")
		w.sim.Log("fault", "Replay returns error")
		return rc.err
	}
	var err error
	if r.inner != nil {
		err = r.inner.Replay(sub)
	}
	rc.err = err
	r.replays = append(r.replays, rc)
	if js != nil {
		js.replayedN = len(js.sub.Sent())
		if err != nil {
			js.replayErr = err
		}
	}
	return err
}

// ---------------------------------------------------------------- parties

type joeSub struct {
	id      int
	sub     *simSub
	topics  []string
	lastID  sse.EventID
	idClass int
	idLpos  int // L index of the presented ID (-1: not an issued ID)
	idDesc  string

	ctx       context.Context
	base      context.Context
	cancel    context.CancelFunc
	startAt   int
	invoked   int
	returned  int
	retErr    error
	cancelReq int
	firstDone int

	accepted   int // seq of the Replay call (0: not seen)
	acceptLpos int
	acceptAt   time.Duration
	replayedN  int
	replayErr  error

	slow       int
	selfCancel bool
	failSeq    int // seq at which an injected Send/Flush failure was returned to Joe
	afterRet   int // calls on the writer after Subscribe returned
}

type loggedCtx struct {
	context.Context
	onDone func()
}

func (c *loggedCtx) Done() <-chan struct{} {
	c.onDone()
	return c.Context.Done()
}

type pubMsg struct {
	tag      string
	topics   []string
	msg      *sse.Message
	invoked  int
	returned int
	err      error
	pub      int
}

type joePub struct {
	id      int
	startAt int // accepted subscribers to wait for (weak)
	msgs    []*pubMsg
	done    bool
}

type joeShutdown struct {
	id       int
	startAt  int
	ctxKind  int // 0 live, 1 expired, 2 expiring
	timeout  time.Duration
	invoked  int
	returned int
	err      error
	ctxErr   error
	done     bool
}

type joeCanceller struct {
	afterArrival bool // crowd profile: waits until every subscriber was accepted
	sub          *joeSub
	startAt      int
	bySends      int
	done         bool
}

type joeWorld struct {
	prefixBase  []string
	wide        bool // large topic sets (wideTopics)
	crowd       bool // dozens of subscribers at once
	usedEmptyID bool
	rc          *RunCtx
	o           *Outcome
	ch          *Chooser
	sim         *verifhook.Sim
	j           *sse.Joe
	rep         *simReplayer

	faults    bool
	noWitness bool          // Joe runs without any Replayer: no Put-order witness
	ttl       time.Duration // ValidReplayer with a real TTL (0: far above the run's duration)
	repKind   int           // 0 none, 1 finite, 2 valid
	auto      bool
	capacity  int

	subs       []*joeSub
	pubs       []*joePub
	shutdowns  []*joeShutdown
	cancellers []*joeCanceller
	closer     joeShutdown

	seq          int
	curPub       map[*sse.Message]*pubMsg // publish call in progress per message pointer
	pubsReturned int
	accepted     int
	prehistory   int
	preDone      bool
	msgSeq       int
	allMsgs      []*pubMsg
	shutdownSeq  int // seq of the first Shutdown invocation (0: none yet)
	shutNilSeq   int // seq at which a Shutdown returned nil
}

func (w *joeWorld) tick() int { w.seq++; return w.seq }

func (w *joeWorld) subOf(c sse.MessageWriter) *joeSub {
	for _, s := range w.subs {
		if s.sub == c {
			return s
		}
	}
	return nil
}

func (w *joeWorld) allPubsDone() bool {
	for _, p := range w.pubs {
		if !p.done {
			return false
		}
	}
	return true
}

func (w *joeWorld) newMessage(topics []string) *pubMsg {
	w.msgSeq++
	tag := fmt.Sprintf("m%d", w.msgSeq)
	m := &sse.Message{}
	m.AppendData(tag)
	wantID := w.repKind != 0 && !w.auto
	if w.repKind != 0 && w.ch.Chance(1, 10, "message the replayer rejects") {
		// wrong ID presence for the real replayer: Put returns an error, Publish must
		// return it and the message must still be delivered live (C17)
		wantID = !wantID
		w.o.fault("message rejected by the real replayer (wrong ID presence)")
	}
	if wantID {
		m.ID = sse.ID("id" + strconv.Itoa(w.msgSeq))
		if !w.usedEmptyID && w.ch.Chance(1, 10, "set-but-empty message id") {
			// the empty string is a legal, set ID: it is not the unset ID of a subscriber that has nothing to resume from
			m.ID = sse.ID("")
			w.usedEmptyID = true
			w.o.probe("message with the set-but-empty ID published")
		}
	} else if w.repKind == 0 && w.ch.Chance(1, 2, "message id") {
		m.ID = sse.ID("id" + strconv.Itoa(w.msgSeq))
	}
	pm := &pubMsg{tag: tag, topics: topics, msg: m}
	w.allMsgs = append(w.allMsgs, pm)
	return pm
}

// ---------------------------------------------------------------- scenario generation

// topicsFor draws a topic set for a message or a subscription (large sets in "wide" runs).
func (w *joeWorld) topicsFor(label string, forMessage bool) []string {
	if w.wide {
		return genTopicsWide(w.ch, label, forMessage)
	}
	if w.ch.Chance(1, 6, label+" topics are a prefix of one shared array") {
		// prefixes of one array kept by the caller: lists are equal by their elements, not by the memory they share
		if w.prefixBase == nil {
			w.prefixBase = []string{"a", sse.DefaultTopic, "b", "c"}
		}
		return w.prefixBase[:1+w.ch.Intn(len(w.prefixBase), label+" prefix length")]
	}
	return genTopics(w.ch, label)
}

func (w *joeWorld) generate() {
	ch := w.ch
	prop := w.rc.Prop
	w.wide = ch.Chance(1, 20, "large topic sets")
	w.crowd = (prop == "C03" || prop == "C06" || prop == "C07") && ch.Chance(1, 40, "crowd of subscribers")
	w.faults = prop == "C06" || prop == "C17" || (prop == "C07" && ch.Chance(1, 2, "fault config")) || (prop == "C03" && ch.Chance(1, 4, "failing subscribers next to the healthy ones"))

	switch prop {
	case "C04":
		w.repKind = 1 + ch.Intn(2, "replayer kind")
	default:
		w.repKind = ch.Weighted([]int{2, 2, 1}, "replayer kind")
	}
	w.auto = ch.Chance(1, 2, "auto ids")
	w.capacity = ch.Range(2, 6, "capacity")
	w.rep = &simReplayer{w: w}
	switch w.repKind {
	case 1:
		fr, err := sse.NewFiniteReplayer(w.capacity, w.auto)
		if err != nil {
			panic(err)
		}
		w.rep.inner = fr
	case 2:
		ttl := 1000 * time.Hour // far above the run's duration
		if ch.Chance(1, 6, "ttl for the lifetime of the program") {
			ttl = []time.Duration{250 * 365 * 24 * time.Hour, math.MaxInt64}[ch.Intn(2, "huge ttl")]
			w.o.probe("TTL beyond 100 years")
		}
		if ch.Chance(1, 3, "valid replayer with a real TTL") {
			// events really expire while the run goes on (ticks are enabled below)
			w.ttl = []time.Duration{5 * time.Second, 2 * time.Minute}[ch.Intn(2, "ttl")]
			ttl = w.ttl
		}
		vr, err := sse.NewValidReplayer(ttl, w.auto)
		if err != nil {
			panic(err)
		}
		w.rep.inner = vr
	}
	w.j = &sse.Joe{Replayer: w.rep}
	if w.repKind == 0 && prop != "C04" && ch.Chance(1, 5, "no replayer at all") {
		// Joe's built-in no-op replayer: no witness, only the witness-free clauses apply
		w.j = &sse.Joe{}
		w.noWitness = true
	}

	// publishers
	nPubs := ch.Weighted([]int{3, 4, 2}, "publishers") + 1
	budget := 12
	if prop == "C04" && ch.Chance(3, 4, "prehistory") {
		w.prehistory = ch.Range(0, w.capacity+3, "prehistory length")
		budget -= w.prehistory / 2
	}
	for p := 0; p < nPubs; p++ {
		jp := &joePub{id: p}
		if ch.Chance(1, 2, "publisher waits") {
			jp.startAt = ch.Range(1, 3, "publisher waits for accepted")
		}
		n := 0
		for n < 4 && budget > 0 && ch.Chance(3, 4, "more messages") {
			pm := w.newMessage(w.topicsFor("msg", true))
			pm.pub = p
			jp.msgs = append(jp.msgs, pm)
			n++
			budget--
			for k := 2; k <= 3 && w.repKind == 0 && budget > 0 && ch.Chance(1, 8, "publish the same *Message again"); k++ {
				// the same message value may be published any number of times (a heartbeat, the README's hello world)
				again := &pubMsg{tag: fmt.Sprintf("%s~%d", pm.tag, k), topics: pm.topics, msg: pm.msg, pub: p}
				if ch.Chance(1, 3, "other topics this time") {
					again.topics = w.topicsFor("msg", true)
				}
				w.allMsgs = append(w.allMsgs, again)
				jp.msgs = append(jp.msgs, again)
				budget--
				w.o.probe("the same *Message published again")
			}
		}
		w.pubs = append(w.pubs, jp)
	}
	total := len(w.allMsgs)

	// subscribers
	nSubs := ch.Weighted([]int{3, 4, 3, 2}, "subscribers") + 1
	if w.crowd {
		// dozens of subscribers registered at once, most of which leave again while Joe is live
		nSubs = ch.Range(64, 70, "crowd size")
		w.o.probe("crowd of 64 or more subscribers")
	}
	for i := 0; i < nSubs; i++ {
		if w.crowd && i >= 3 {
			s := &joeSub{id: i, idLpos: -1, idClass: idUnset}
			s.sub = &simSub{ID: i}
			s.topics = w.topicsFor("sub", false)
			s.base, s.cancel = context.WithCancel(context.Background())
			s.ctx = &loggedCtx{Context: s.base, onDone: func() {
				if s.firstDone == 0 {
					s.firstDone = w.tick()
				}
			}}
			s.sub.OnCall = w.onSubCall(s)
			w.subs = append(w.subs, s)
			if ch.Chance(7, 8, "canceller") {
				// most of the crowd leaves again, after everybody has arrived
				w.cancellers = append(w.cancellers, &joeCanceller{sub: s, startAt: ch.Range(0, max(total, 1), "cancel after publishes"), afterArrival: true})
			}
			continue
		}
		s := &joeSub{id: i, idLpos: -1}
		s.sub = &simSub{ID: i}
		s.topics = w.topicsFor("sub", false)
		if ch.Chance(1, 16, "subscription without topics") {
			// handed to Joe directly (the Server never does this): no topic, so nothing matches it
			s.topics = [][]string{nil, {}}[ch.Intn(2, "nil or empty topics")]
			w.o.probe("subscription without topics")
		}
		base, cancel := context.WithCancel(context.Background())
		if ch.Chance(1, 5, "subscriber context ends with DeadlineExceeded") {
			dc := &simDeadlineCtx{Context: context.Background(), done: make(chan struct{})}
			base, cancel = dc, dc.expire
		}
		if i > 0 && ch.Chance(1, 6, "shares the previous subscriber's context") {
			// one request context behind several subscriptions: a single cancellation
			// produces several unsubscriptions at once
			prev := w.subs[i-1]
			base, cancel = prev.base, prev.cancel
			w.o.probe("two subscribers share one context")
		}
		s.base = base
		s.cancel = cancel
		s.ctx = &loggedCtx{Context: base, onDone: func() {
			if s.firstDone == 0 {
				s.firstDone = w.tick()
			}
		}}
		if ch.Chance(1, 2, "subscriber waits") {
			s.startAt = ch.Range(1, max(total, 1), "subscriber waits for publishes")
		}
		s.slow = ch.Weighted([]int{2, 5, 2}, "subscriber slowness")
		if prop == "C04" || ch.Chance(1, 3, "present id") {
			s.idClass = ch.Weighted([]int{2, 4, 4, 2, 2, 1}, "presented id class")
		} else {
			s.idClass = idUnset
		}
		if w.faults && ch.Chance(1, 2, "subscriber fails") {
			if ch.Chance(1, 4, "flush fails") {
				s.sub.FailFlushAt = ch.Range(1, 3, "failing flush")
			} else {
				s.sub.FailSendAt = ch.Range(1, 3, "failing send")
			}
			s.selfCancel = ch.Chance(1, 2, "failing call cancels own context")
			s.sub.Sticky = ch.Chance(3, 4, "a broken subscriber stays broken")
			s.sub.FlushOnly = s.sub.FailFlushAt > 0 && ch.Chance(1, 2, "only flushes keep failing")
			s.sub.Disguise = drawDisguise(ch, "subscriber failure")
		}
		s.sub.OnCall = w.onSubCall(s)
		w.subs = append(w.subs, s)
		// canceller
		if ch.Chance(1, 2, "canceller") {
			c := &joeCanceller{sub: s}
			if ch.Chance(1, 2, "cancel by sends") {
				c.bySends = ch.Range(1, 3, "cancel after sends")
			} else {
				c.startAt = ch.Range(0, max(total, 1), "cancel after publishes")
			}
			w.cancellers = append(w.cancellers, c)
		}
	}
	if w.faults && prop == "C17" {
		// at least one healthy subscriber
		h := w.subs[ch.Intn(len(w.subs), "healthy subscriber")]
		h.sub.FailSendAt, h.sub.FailFlushAt, h.selfCancel = 0, 0, false
	}

	// replayer faults
	if w.faults && prop != "C06" && prop != "C03" || (prop == "C06" && ch.Chance(1, 3, "replay error")) {
		if prop == "C06" {
			w.rep.failReplayAt = ch.Range(1, 3, "failing replay")
		} else {
			// one fault, sometimes a second of another kind (a path taken only after an earlier failure was handled)
			for n := 0; n < 2 && (n == 0 || ch.Chance(1, 3, "second replayer fault")); n++ {
				switch ch.Weighted([]int{3, 2, 2, 2, 2}, "replayer fault") {
				case 1:
					w.rep.failPutAt = ch.Range(1, 4, "failing put")
				case 2:
					w.rep.panicPutAt = ch.Range(1, 4, "panicking put")
				case 3:
					w.rep.failReplayAt = ch.Range(1, 3, "failing replay")
				case 4:
					w.rep.panicReplayAt = ch.Range(1, 3, "panicking replay")
				}
			}
		}
	}

	// extra Shutdown tasks
	nShut := 0
	if prop == "C07" || (prop == "C06" && ch.Chance(1, 3, "several shutdown tasks")) {
		// overlapping Shutdown calls (several RegisterOnShutdown hooks, Server.Shutdown next to Joe.Shutdown)
		nShut = ch.Weighted([]int{1, 3, 2, 1}, "shutdown tasks")
	} else if ch.Chance(1, 4, "early shutdown") {
		nShut = 1
	}
	for i := 0; i < nShut; i++ {
		sd := &joeShutdown{id: i}
		sd.startAt = ch.Range(0, max(total, 1), "shutdown after publishes")
		sd.ctxKind = ch.Weighted([]int{4, 1, 2}, "shutdown context")
		if sd.ctxKind == 2 {
			sd.timeout = []time.Duration{time.Millisecond, time.Second, time.Minute}[ch.Intn(3, "shutdown timeout")]
		}
		w.shutdowns = append(w.shutdowns, sd)
	}
}

func max(a, b int) int {
	if a > b {
		return a
	}
	return b
}

// panicValue draws what a panicking replayer panics with: a string, an error value, a runtime
// error (what a nil-map write or an index out of range produce), or some other value.
func (w *joeWorld) panicValue(where string) any {
	switch w.ch.Weighted([]int{2, 2, 2, 1}, "panic value kind") {
	case 1:
		return newInjected("replayer " + where + " panic (error value)")
	case 2:
		defer func() { w.o.probe("replayer panicked with a runtime error") }()
		var rt any
		func() {
			defer func() { rt = recover() }()
			var m map[string]int
			m[where] = 1
		}()
		return rt
	case 3:
		return struct{ what string }{"injected: replayer " + where + " panic"}
	}
	return "injected: replayer " + where + " panic"
}

// onSubCall runs inside every Send/Flush of subscriber s (on Joe's goroutine).
func (w *joeWorld) onSubCall(s *joeSub) func(*simSub, bool, *sse.Message, error) {
	return func(ss *simSub, flush bool, m *sse.Message, err error) {
		what := "Send"
		detail := ""
		if flush {
			what = "Flush"
		} else {
			detail = " " + msgTag(m) + "#" + m.ID.String()
		}
		ss.Calls[len(ss.Calls)-1].Step = w.tick()
		w.sim.Logf(what, "sub%d%s err=%v", s.id, detail, err)
		if s.returned != 0 {
			s.afterRet++
			w.o.violate("C06", "call-after-return", "sub%d: %s%s called after its Subscribe had returned (%v)", s.id, what, detail, s.retErr)
			if !flush {
				// a subscriber whose Subscribe has returned is no longer registered: nothing may be handed to it
				w.o.violate("C03", "delivered-after-return", "sub%d was handed%s after its Subscribe had returned (%v): it is no longer a registered subscriber", s.id, detail, s.retErr)
			}
		}
		if err != nil {
			s.failSeq = w.tick()
			if flush {
				w.o.fault("subscriber Flush fails")
			} else {
				w.o.fault("subscriber Send fails")
			}
			if s.selfCancel {
				w.o.fault("failing call cancels its own context")
				req := w.tick()
				for _, o := range w.subs {
					if o.base == s.base && o.cancelReq == 0 {
						o.cancelReq = req
					}
				}
				s.cancel()
			}
		}
		for i := 0; i < s.slow; i++ {
			w.sim.YieldHere(fmt.Sprintf("sub%d.%s", s.id, what))
		}
	}
}

// ---------------------------------------------------------------- tasks

func (w *joeWorld) spawnAll() {
	sim := w.sim
	// prehistory: sequential publishes before anything else
	if w.prehistory > 0 {
		var pre []*pubMsg
		for i := 0; i < w.prehistory; i++ {
			pm := w.newMessage(w.topicsFor("pre", true))
			pm.pub = -1
			pre = append(pre, pm)
		}
		sim.Spawn("prehistory", func() {
			for _, pm := range pre {
				w.publish(pm)
			}
			w.preDone = true
		})
	} else {
		w.preDone = true
	}
	for _, p := range w.pubs {
		p := p
		sim.Spawn(fmt.Sprintf("pub%d", p.id), func() {
			sim.WaitFor("pub start", func() bool { return w.preDone })
			if p.startAt > 0 {
				sim.WaitWeak("pub waits for subscribers", func() bool { return w.accepted >= p.startAt })
			}
			for _, pm := range p.msgs {
				w.publish(pm)
			}
			p.done = true
		})
	}
	for _, s := range w.subs {
		s := s
		sim.Spawn(fmt.Sprintf("sub%d", s.id), func() {
			sim.WaitFor("sub start", func() bool { return w.preDone })
			if s.startAt > 0 {
				sim.WaitWeak("sub waits for publishes", func() bool { return w.pubsReturned >= s.startAt })
			}
			w.chooseLastID(s)
			s.invoked = w.tick()
			sim.Logf("Subscribe", "sub%d invoke topics=%s lastID=%s", s.id, fmtTopics(s.topics), s.idDesc)
			err := w.j.Subscribe(s.ctx, sse.Subscription{Client: s.sub, LastEventID: s.lastID, Topics: s.topics})
			s.returned = w.tick()
			s.retErr = err
			sim.Logf("Subscribe", "sub%d returned %v", s.id, err)
		})
	}
	for _, c := range w.cancellers {
		c := c
		sim.Spawn(fmt.Sprintf("cancel%d", c.sub.id), func() {
			if c.afterArrival {
				sim.WaitWeak("cancel waits for the crowd to arrive", func() bool {
					for _, s := range w.subs {
						if s.accepted == 0 {
							return false
						}
					}
					return true
				})
			}
			if c.bySends > 0 {
				sim.WaitWeak("cancel waits for sends", func() bool { return c.sub.sub.sends >= c.bySends })
			} else if c.startAt > 0 {
				sim.WaitWeak("cancel waits for publishes", func() bool { return w.pubsReturned >= c.startAt })
			}
			req := w.tick()
			for _, o := range w.subs {
				if o.base == c.sub.base && o.cancelReq == 0 {
					o.cancelReq = req
				}
			}
			sim.Logf("cancel", "sub%d", c.sub.id)
			w.o.fault("context cancellation")
			c.sub.cancel()
			c.done = true
		})
	}
	for _, sd := range w.shutdowns {
		sd := sd
		sim.Spawn(fmt.Sprintf("shutdown%d", sd.id), func() {
			if sd.startAt > 0 {
				sim.WaitWeak("shutdown waits for publishes", func() bool { return w.pubsReturned >= sd.startAt })
			}
			w.doShutdown(sd)
		})
	}
	w.closer.id = 99
	sim.Spawn("closer", func() {
		sim.WaitFor("closer", func() bool {
			if !w.allPubsDone() || !w.preDone {
				return false
			}
			for _, c := range w.cancellers {
				if !c.done {
					return false
				}
			}
			for _, sd := range w.shutdowns {
				if !sd.done {
					return false
				}
			}
			for _, s := range w.subs {
				if s.invoked == 0 {
					return false
				}
			}
			return true
		})
		w.doShutdown(&w.closer)
	})
}

func (w *joeWorld) doShutdown(sd *joeShutdown) {
	ctx := context.Background()
	var cancel context.CancelFunc = func() {}
	switch sd.ctxKind {
	case 1:
		ctx, cancel = context.WithCancel(ctx)
		cancel()
		w.o.fault("Shutdown with an expired context")
	case 2:
		ctx, cancel = context.WithTimeout(ctx, sd.timeout)
		w.o.fault("Shutdown with an expiring context")
	}
	defer cancel()
	sd.invoked = w.tick()
	if w.shutdownSeq == 0 {
		w.shutdownSeq = sd.invoked
	}
	w.o.fault("Shutdown")
	w.sim.Logf("Shutdown", "#%d invoke ctx=%d", sd.id, sd.ctxKind)
	err := w.j.Shutdown(ctx)
	sd.returned = w.tick()
	sd.err = err
	sd.ctxErr = ctx.Err()
	if err == nil && w.shutNilSeq == 0 {
		w.shutNilSeq = sd.returned
	}
	sd.done = true
	w.sim.Logf("Shutdown", "#%d returned %v", sd.id, err)
}

func (w *joeWorld) publish(pm *pubMsg) {
	if w.ch.Chance(1, 16, "publish without topics first") {
		// no topics: ErrNoTopic, and nothing may happen
		before := len(w.rep.puts)
		for _, topics := range [][]string{nil, {}} {
			if err := w.j.Publish(pm.msg, topics); !errors.Is(err, sse.ErrNoTopic) {
				w.o.violate("C03", "no-topic", "Publish(%s) without topics returned %v, want ErrNoTopic", pm.tag, err)
			}
		}
		if len(w.rep.puts) != before {
			w.o.violate("C03", "no-topic", "a Publish without topics reached the replayer")
		}
		w.o.probe("Publish without topics")
	}
	if w.curPub == nil {
		w.curPub = map[*sse.Message]*pubMsg{}
	}
	w.curPub[pm.msg] = pm
	pm.invoked = w.tick()
	w.sim.Logf("Publish", "%s#%s topics=%s invoke", pm.tag, pm.msg.ID.String(), fmtTopics(pm.topics))
	err := w.j.Publish(pm.msg, pm.topics)
	pm.returned = w.tick()
	pm.err = err
	w.pubsReturned++
	w.sim.Logf("Publish", "%s returned %v", pm.tag, err)
}

// chooseLastID picks the presented Last-Event-ID of s relative to the Put
// history at the moment s subscribes.
func (w *joeWorld) chooseLastID(s *joeSub) {
	L := w.rep.puts
	// positions whose ID is known and set
	var cand []int
	for i, e := range L {
		if e.err == nil && !e.panicked && e.id != "" && (w.repKind == 0 || e.stored) {
			cand = append(cand, i)
		}
	}
	buffered := cand
	if w.repKind == 1 && len(cand) > w.capacity {
		buffered = cand[len(cand)-w.capacity:]
	}
	pick := func(pos int, desc string) {
		s.idLpos = pos
		s.lastID = sse.ID(L[pos].id)
		s.idDesc = fmt.Sprintf("%s(%s=L[%d])", desc, L[pos].id, pos)
	}
	switch {
	case s.idClass == idOldest && len(buffered) > 0:
		pick(buffered[0], "oldest")
	case s.idClass == idMiddle && len(buffered) > 0:
		pick(buffered[w.ch.Intn(len(buffered), "presented index")], "middle")
	case s.idClass == idNewest && len(buffered) > 0:
		pick(buffered[len(buffered)-1], "newest")
	case s.idClass == idEvicted && len(cand) > len(buffered):
		pick(cand[w.ch.Intn(len(cand)-len(buffered), "evicted index")], "evicted")
	case s.idClass == idUnset:
		s.idDesc = "unset"
	default:
		s.idClass = idNever
		nevers := []string{"zzz", "id0", "999", "-1", "07", "9223372036854775808", "18446744073709551615", "99999999999999999999"}
		// an ID that has not been issued yet but will be: the ID of a message that is published later
		// (IDs that cycle, a client that was ahead of a restarted server)
		inL := map[string]bool{}
		for _, e := range L {
			inL[e.tag] = true
		}
		for _, pm := range w.allMsgs {
			if !inL[pm.tag] && pm.msg.ID.IsSet() && pm.msg.ID.String() != "" {
				nevers = append(nevers, pm.msg.ID.String(), pm.msg.ID.String())
				break
			}
		}
		v := nevers[w.ch.Intn(len(nevers), "never-issued id")]
		for _, e := range L {
			if e.id == v {
				v = "never-" + v
			}
		}
		s.lastID = sse.ID(v)
		s.idDesc = "never-issued(" + v + ")"
	}
}

// ---------------------------------------------------------------- run

func runJoeWorld(rc *RunCtx) *Outcome {
	o := newOutcome()
	var w *joeWorld
	var res verifhook.Result
	bubblePanic := ""
	func() {
		defer func() {
			if p := recover(); p != nil {
				bubblePanic = fmt.Sprint(p)
			}
		}()
		synctest.Test(rc.T, func(t *testing.T) {
			w = &joeWorld{rc: rc, o: o, ch: rc.Ch}
			cfg := verifhook.Config{MaxSteps: 3000, Horizon: 24 * time.Hour, KeepLog: rc.KeepLog}
			cfg.Sticky = []int{0, 0, 2, 6}[rc.Ch.Intn(4, "scheduler stickiness")]
			if rc.Ch.Chance(1, 4, "priority scheduling") {
				cfg.PCT = 1 + rc.Ch.Intn(3, "pct depth")
				o.probe("priority (PCT) scheduling")
			}
			if rc.Ch.Chance(1, 4, "ticks") {
				cfg.TickOneIn = 8
			}
			w.generate()
			if w.ttl > 0 {
				cfg.TickOneIn = 3
			}
			if w.crowd {
				cfg.MaxSteps = 40000
			}
			w.sim = verifhook.New(rc.Ch, cfg)
			w.sim.SetRanker(func(key, value any) (int64, bool) {
				if sub, ok := value.(sse.Subscription); ok {
					if ss, ok := sub.Client.(*simSub); ok {
						return int64(ss.ID), true
					}
				}
				return 0, false
			})
			w.sim.SetOnStep(w.sampleState)
			verifhook.Install(w.sim)
			defer verifhook.Install(nil)
			w.spawnAll()
			res = w.sim.Run()
			w.sim.Abort()
		})
	}()
	if w == nil || w.sim == nil {
		o.Inconclusive = true
		o.probe("harness: world not built: " + bubblePanic)
		return o
	}
	o.Steps = res.Steps
	o.SimTime = res.SimTime
	o.LogHash = res.Hash
	o.Sched = res.SchedHash
	if rc.KeepLog {
		o.Log = append(o.Log, w.describe()...)
		for _, e := range w.sim.Events() {
			o.Log = append(o.Log, e.String())
		}
	}
	w.evaluate(res, bubblePanic)
	h := newHasher()
	h.u64(res.SchedHash)
	h.str(strings.Join(w.describe(), "|"))
	o.Key = uint64(h)
	delivered := 0
	for _, s := range w.subs {
		delivered += s.sub.sends
	}
	o.Nontrivial = delivered > 0 && res.Steps > 20
	o.Sample = map[string]any{"scenario": w.describe(), "steps": res.Steps, "deliveries": delivered, "L": len(w.rep.puts)}
	return o
}

func (w *joeWorld) sampleState() {
	h := newHasher()
	h.int(w.accepted)
	h.int(len(w.rep.puts))
	h.int(b2i(w.shutdownSeq != 0))
	for _, s := range w.subs {
		st := 0
		switch {
		case s.returned != 0:
			st = 3
		case s.accepted != 0:
			st = 2
		case s.invoked != 0:
			st = 1
		}
		h.int(st)
	}
	if len(w.o.States) < 64 {
		w.o.States = append(w.o.States, uint64(h))
	}
}

func (w *joeWorld) describe() []string {
	var out []string
	rk := []string{"no real replayer", "FiniteReplayer", "ValidReplayer"}[w.repKind]
	if w.noWitness {
		rk = "none (Joe's built-in no-op)"
	}
	if w.ttl > 0 {
		rk += fmt.Sprintf(" ttl=%v", w.ttl)
	}
	out = append(out, fmt.Sprintf("replayer=%s capacity=%d autoIDs=%v faults=%v prehistory=%d putFail=%d putPanic=%d replayFail=%d replayPanic=%d",
		rk, w.capacity, w.auto, w.faults, w.prehistory, w.rep.failPutAt, w.rep.panicPutAt, w.rep.failReplayAt, w.rep.panicReplayAt))
	for _, p := range w.pubs {
		var ms []string
		for _, m := range p.msgs {
			ms = append(ms, m.tag+fmtTopics(m.topics))
		}
		out = append(out, fmt.Sprintf("pub%d waitAccepted=%d msgs=%s", p.id, p.startAt, strings.Join(ms, " ")))
	}
	for _, s := range w.subs {
		out = append(out, fmt.Sprintf("sub%d topics=%s waitPubs=%d idClass=%s slow=%d failSend=%d failFlush=%d selfCancel=%v",
			s.id, fmtTopics(s.topics), s.startAt, idClassNames[s.idClass], s.slow, s.sub.FailSendAt, s.sub.FailFlushAt, s.selfCancel))
	}
	for _, c := range w.cancellers {
		out = append(out, fmt.Sprintf("cancel sub%d afterPubs=%d afterSends=%d", c.sub.id, c.startAt, c.bySends))
	}
	for _, sd := range w.shutdowns {
		out = append(out, fmt.Sprintf("shutdown%d afterPubs=%d ctx=%d timeout=%v", sd.id, sd.startAt, sd.ctxKind, sd.timeout))
	}
	return out
}

// ---------------------------------------------------------------- oracles

func (w *joeWorld) evaluate(res verifhook.Result, bubblePanic string) {
	o := w.o
	// C06: no panic anywhere
	for _, t := range res.Panicked {
		clause := "panic"
		if t.Internal {
			clause = "panic-in-provider"
		}
		o.violate("C06", clause, "task %s panicked: %s", t.Name, t.PanicInfo)
		if strings.HasPrefix(t.Name, "shutdown") || t.Name == "closer" {
			o.violate("C07", "shutdown-panics", "a Shutdown call panicked: %s", t.PanicInfo)
		}
	}
	if len(res.Panicked) > 0 {
		return // in a real process this is a crash; nothing after it means anything
	}
	if res.CapHit {
		o.Inconclusive = true
		return
	}
	// C07: everything terminates once Shutdown was called and all Send/Flush returned
	if len(res.Unfinish) > 0 {
		var names []string
		for _, t := range res.Unfinish {
			names = append(names, fmt.Sprintf("%s@%s", t.Name, t.Site()))
		}
		o.violate("C07", "stuck", "after Shutdown, with nothing left to run, these tasks never finished: %s", strings.Join(names, ", "))
		joeStuck := false
		for _, t := range res.Unfinish {
			if t.Internal {
				joeStuck = true
			}
		}
		for _, s := range w.subs {
			if joeStuck && s.sub.Failed != nil {
				// one subscriber's failure stalled the provider: everybody else is affected
				o.violate("C17", "failure-stalls-provider", "after sub%d's failure (%v) Joe's goroutine is blocked for good (%s): no other subscriber gets anything any more", s.id, s.sub.Failed, strings.Join(names, ", "))
				break
			}
		}
		return
	}
	if bubblePanic != "" {
		o.probe("harness: bubble ended with " + bubblePanic)
		o.Inconclusive = true
	}
	for _, r := range w.sim.Races() {
		o.probe("lockset report: " + r.Site)
		o.violate("C13", "data-race-in-provider", "lockset violation: %s", r.String())
	}
	w.checkShutdownResults()
	w.checkPublishResults()
	w.checkSubscribeResults()
	w.checkDeliveries()
	w.checkReplayerUse()
	w.mirrorHealthyToC03()
	w.probes()
}

// mirrorHealthyToC03: in a fault configuration the delivery clauses are filed
// under C17 (failure isolation); when the subscriber concerned is itself
// healthy, the same observation also breaks C03 (exactly once, in order, to
// every registered matching subscriber), whoever else failed.
func (w *joeWorld) mirrorHealthyToC03() {
	if !w.faults {
		return
	}
	delivery := map[string]bool{"duplicate": true, "unknown-message": true, "non-matching": true, "order": true, "window": true, "missing": true, "program-order": true, "order-disagreement": true}
	n := len(w.o.Violations)
	for i := 0; i < n; i++ {
		v := w.o.Violations[i]
		if v.Prop != "C17" || !delivery[v.Clause] {
			continue
		}
		var id int
		if _, err := fmt.Sscanf(v.Detail, "sub%d", &id); err != nil || id < 0 || id >= len(w.subs) {
			continue
		}
		if s := w.subs[id]; s.sub.FailSendAt == 0 && s.sub.FailFlushAt == 0 && s.replayErr == nil {
			w.o.Violations = append(w.o.Violations, Violation{Prop: "C03", Clause: v.Clause, Detail: v.Detail + " (a healthy subscriber, while another subscriber failed)"})
		}
	}
}

func (w *joeWorld) allShutdowns() []*joeShutdown {
	out := append([]*joeShutdown{}, w.shutdowns...)
	return append(out, &w.closer)
}

func (w *joeWorld) checkShutdownResults() {
	o := w.o
	winners := 0
	for _, sd := range w.allShutdowns() {
		if sd.invoked == 0 {
			continue
		}
		switch {
		case errors.Is(sd.err, sse.ErrProviderClosed):
		case sd.err == nil:
			winners++
		case sd.ctxErr != nil && errors.Is(sd.err, sd.ctxErr):
			winners++
		default:
			o.violate("C07", "shutdown-result", "Shutdown #%d returned %v (context error: %v)", sd.id, sd.err, sd.ctxErr)
		}
	}
	if winners != 1 {
		o.violate("C07", "shutdown-result", "%d Shutdown calls did not return ErrProviderClosed, want exactly 1", winners)
	}
}

func (w *joeWorld) checkPublishResults() {
	o := w.o
	inL := map[string]int{}
	for _, e := range w.rep.puts {
		inL[e.tag]++
	}
	for _, m := range w.allMsgs {
		if m.invoked == 0 {
			continue
		}
		var le *lEntry
		for i := range w.rep.puts {
			if w.rep.puts[i].tag == m.tag {
				le = &w.rep.puts[i]
			}
		}
		switch {
		case errors.Is(m.err, sse.ErrProviderClosed):
			if w.shutdownSeq == 0 || w.shutdownSeq > m.returned {
				o.violate("C07", "publish-result", "Publish(%s) returned ErrProviderClosed although no Shutdown had been called", m.tag)
			}
			if inL[m.tag] > 0 {
				o.violate("C03", "closed-but-accepted", "Publish(%s) returned ErrProviderClosed but the message was accepted", m.tag)
			}
		case m.err == nil:
			if (!w.rep.panicked && !w.noWitness) || inL[m.tag] > 0 {
				if inL[m.tag] != 1 {
					o.violate("C03", "accepted-once", "Publish(%s) returned nil but the message was put %d times", m.tag, inL[m.tag])
				} else if le.err != nil {
					o.violate("C17", "put-error-returned", "Put(%s) failed with %v but Publish returned nil", m.tag, le.err)
				}
			}
			if w.shutNilSeq != 0 && m.invoked > w.shutNilSeq {
				o.violate("C07", "publish-after-shutdown", "Publish(%s) invoked after Shutdown had returned nil returned nil", m.tag)
			}
		default:
			if le == nil || le.err == nil || !errors.Is(m.err, le.err) {
				o.violate("C17", "put-error-returned", "Publish(%s) returned %v, which is not the replayer's Put error", m.tag, m.err)
			}
		}
	}
	// L respects real time
	pos := map[string]int{}
	for i, e := range w.rep.puts {
		pos[e.tag] = i
	}
	for _, a := range w.allMsgs {
		pa, oka := pos[a.tag]
		if !oka {
			continue
		}
		for _, b := range w.allMsgs {
			pb, okb := pos[b.tag]
			if okb && a.returned != 0 && b.invoked != 0 && a.returned < b.invoked && pa > pb {
				o.violate("C03", "order-real-time", "Publish(%s) returned before Publish(%s) was invoked, but Joe serialised %s first", a.tag, b.tag, b.tag)
			}
		}
	}
}

func (w *joeWorld) checkSubscribeResults() {
	o := w.o
	for _, s := range w.subs {
		if s.invoked == 0 {
			continue
		}
		own := s.sub.Failed
		if own == nil {
			own = s.replayErr
		}
		switch {
		case own != nil:
			if !errors.Is(s.retErr, own) {
				clause := "subscribe-result"
				o.violate("C06", clause, "sub%d: its own %v was returned to Joe, but Subscribe returned %v (cancel requested: %v)", s.id, own, s.retErr, s.cancelReq != 0)
				if s.sub.Failed != nil {
					o.violate("C17", "failed-subscriber-result", "sub%d: its Send/Flush failed with %v, but Subscribe returned %v instead of that error", s.id, s.sub.Failed, s.retErr)
				}
			}
			// "only that subscriber is removed": nothing is sent to it after the call that failed
			for i, c := range s.sub.Calls {
				if c.Err != nil {
					if n := len(s.sub.Calls) - i - 1; n > 0 {
						o.violate("C17", "failed-subscriber-not-removed", "sub%d: %d further Send/Flush calls after the call that failed with %v", s.id, n, c.Err)
					}
					break
				}
			}
		case errors.Is(s.retErr, sse.ErrProviderClosed):
			if w.shutdownSeq == 0 || w.shutdownSeq > s.returned {
				o.violate("C06", "subscribe-result", "sub%d: Subscribe returned ErrProviderClosed although no Shutdown had been called", s.id)
			}
			if s.accepted != 0 {
				o.violate("C06", "subscribe-result", "sub%d: accepted subscription ended with ErrProviderClosed, want nil", s.id)
			}
		case s.retErr != nil:
			o.violate("C06", "subscribe-result", "sub%d: Subscribe returned %v without any failure of its own", s.id, s.retErr)
			if w.rep.panicked && w.rep.panicSeq != 0 && s.invoked > w.rep.panicSeq {
				// after a replayer panic calls proceed as if no replayer were configured: a subscription
				// made afterwards cannot fail with anything that comes from the replayer
				o.violate("C17", "subscribe-fails-after-replayer-panic", "sub%d subscribed after the replayer had panicked and was turned away with %v", s.id, s.retErr)
			}
		default:
			if s.cancelReq == 0 && w.shutdownSeq == 0 {
				o.violate("C06", "subscribe-result", "sub%d: Subscribe returned nil without cancellation or shutdown", s.id)
			}
			if w.shutNilSeq != 0 && s.invoked > w.shutNilSeq {
				o.violate("C07", "subscribe-after-shutdown", "sub%d: Subscribe invoked after Shutdown had returned nil returned nil", s.id)
			}
		}
	}
}

func (w *joeWorld) checkDeliveries() {
	o := w.o
	L := w.rep.puts
	pos := map[string]int{}
	for i, e := range L {
		pos[e.tag] = i
	}
	witnessOK := !w.rep.panicked && !w.noWitness
	w.checkWitnessFree()
	for _, s := range w.subs {
		healthy := s.sub.FailSendAt == 0 && s.sub.FailFlushAt == 0
		prop := "C03"
		if w.faults {
			prop = "C17"
		}
		w.checkFlushDiscipline(s)

		sent := s.sub.Sent()
		seen := map[string]bool{}
		seenBase := map[string]int{}
		var sendSteps []int
		for _, c := range s.sub.Calls {
			if !c.Flush {
				sendSteps = append(sendSteps, c.Step)
			}
		}
		var lseq []int
		for si, m := range sent {
			tag := msgTag(m)
			seenBase[tag]++
			if w.rep.panicked && si < len(sendSteps) && sendSteps[si] > w.rep.panicSeq {
				continue // sent after the replayer had panicked: no Put-order witness for it (counts are checked by the witness-free clauses)
			}
			if !w.noWitness && si >= s.replayedN && si < len(sendSteps) {
				// a live Send belongs to the fan-out of the latest Put before it (Joe is serial)
				lp := -1
				for i := range L {
					if L[i].seq < sendSteps[si] {
						lp = i
					}
				}
				if lp >= 0 && L[lp].base == tag {
					tag = L[lp].tag
				}
			}
			if seen[tag] {
				// without a witness a repeated payload may be a legitimate re-publish of the same *Message
				published := 0
				for _, pm := range w.allMsgs {
					if msgTag(pm.msg) == msgTag(m) && pm.invoked != 0 {
						published++
					}
				}
				if witnessOK || seenBase[msgTag(m)] > published {
					o.violate(prop, "duplicate", "sub%d received %s twice: %s", s.id, tag, tagsOf(sent))
				}
			}
			seen[tag] = true
			p, ok := pos[tag]
			if !ok {
				if witnessOK {
					o.violate(prop, "unknown-message", "sub%d received %s which Joe never put", s.id, tag)
				}
				continue
			}
			if !topicsIntersect(s.topics, L[p].topics) {
				o.violate(prop, "non-matching", "sub%d (topics %s) received %s published to %s", s.id, fmtTopics(s.topics), tag, fmtTopics(L[p].topics))
			}
			if L[p].err == nil && !L[p].panicked && m.ID.String() != L[p].id {
				o.violate("C04", "id-mismatch", "sub%d received %s with ID %q, Put returned %q", s.id, tag, m.ID.String(), L[p].id)
			}
			lseq = append(lseq, p)
		}
		// order
		for i := 1; i < len(lseq); i++ {
			if lseq[i] <= lseq[i-1] {
				clause := "order"
				pr := prop
				if i < s.replayedN+1 && s.replayedN > 0 {
					pr, clause = "C04", "replay-order"
				}
				o.violate(pr, clause, "sub%d received %s out of Joe's serialisation order %s", s.id, tagsOf(sent), w.lTags())
				break
			}
		}
		if s.accepted == 0 {
			// no acceptance witness (no replayer, a replayer that panicked earlier, or an
			// implementation that does not consult the replayer for this subscription):
			// a subscriber that has received a message is certainly registered from that
			// Send on
			if first := firstSendSeq(s); first != 0 && s.replayErr == nil {
				endSeq := s.cancelReq
				if s.failSeq != 0 && (endSeq == 0 || s.failSeq < endSeq) {
					endSeq = s.failSeq
				}
				if w.shutdownSeq != 0 && (endSeq == 0 || w.shutdownSeq < endSeq) {
					endSeq = w.shutdownSeq
				}
				saved := s.accepted
				s.accepted = first
				w.checkMustInclude(s, seenBase, endSeq, prop)
				s.accepted = saved
			}
			continue
		}
		// a "not yet issued" ID may have been issued by the time the subscription was accepted (its
		// message was published in between): then it is the ID of that event like any other
		if s.idClass == idNever && s.lastID.IsSet() {
			for i := 0; i < s.acceptLpos && i < len(L); i++ {
				if L[i].err == nil && !L[i].panicked && L[i].id == s.lastID.String() && (w.repKind == 0 || L[i].stored) {
					s.idLpos, s.idClass = i, idMiddle
					s.idDesc += fmt.Sprintf(" (issued meanwhile: L[%d])", i)
				}
			}
		}
		// expected window: from start (after presented ID, or acceptance point) contiguous
		start := s.acceptLpos
		startKnown := true
		replayProp := "C04"
		if w.rep.inner != nil && s.idLpos >= 0 && !w.faults {
			buffered := true
			if w.repKind == 1 {
				// buffer at acceptance = last capacity stored entries before acceptLpos
				stored := 0
				for i := s.acceptLpos - 1; i > s.idLpos; i-- {
					if L[i].stored {
						stored++
					}
				}
				buffered = stored < w.capacity
			}
			if w.ttl > 0 && L[s.idLpos].at+w.ttl <= s.acceptAt {
				// The presented event had expired when the subscription was accepted. Only a Put can
				// collect it (Joe never calls GC): if no Put was made since its expiry, the replayer still
				// holds it, it is "the ID of a buffered event", and the later unexpired events are due.
				// Otherwise it may or may not have been collected and the start is unknown.
				expiry := L[s.idLpos].at + w.ttl
				for i := s.idLpos + 1; i < s.acceptLpos && i < len(L); i++ {
					if L[i].at >= expiry {
						buffered = false
						startKnown = false
					}
				}
				if startKnown {
					w.o.probe("presented ID of an expired event that cannot have been collected yet")
				} else {
					w.o.probe("presented ID of an expired event")
				}
			}
			switch {
			case !startKnown:
			case buffered:
				start = s.idLpos + 1
			case w.auto:
				startKnown = false // evicted ID, automatic IDs: property is silent
			default:
				// evicted ID, manual IDs: nothing replayed
			}
		}
		if w.faults && s.idLpos >= 0 {
			startKnown = false
		}
		if !witnessOK {
			startKnown = false
		}
		// end of must-window: last message whose Publish returned before the subscriber's end
		endSeq := s.cancelReq
		if s.failSeq != 0 && (endSeq == 0 || s.failSeq < endSeq) {
			endSeq = s.failSeq
		}
		if w.shutdownSeq != 0 && (endSeq == 0 || w.shutdownSeq < endSeq) {
			endSeq = w.shutdownSeq
		}
		if s.replayErr != nil {
			continue // subscription failed in replay: never registered
		}
		if startKnown {
			// expected = filter(L[start..)) ; received must be a prefix of it, reaching at least the must-end
			var expect []int
			for i := start; i < len(L); i++ {
				if i < s.acceptLpos && w.rep.inner != nil && !L[i].stored {
					continue // rejected by the replayer: delivered live only, cannot be replayed
				}
				if i < s.acceptLpos && w.ttl > 0 && L[i].at+w.ttl <= s.acceptAt {
					w.o.probe("expired event skipped by the replay")
					continue // expired before the replay: must not be replayed (C09), is not missing (C04)
				}
				if topicsIntersect(s.topics, L[i].topics) {
					expect = append(expect, i)
				}
			}
			mismatch := len(lseq) > len(expect)
			for i := 0; !mismatch && i < len(lseq); i++ {
				if lseq[i] != expect[i] {
					mismatch = true
				}
			}
			if mismatch {
				pr, clause := prop, "window"
				if s.idLpos >= 0 || s.idClass == idNever {
					pr, clause = replayProp, "resume-sequence"
				}
				if s.idClass == idNewest && s.idLpos >= 0 {
					clause = "resume-newest"
				}
				if s.idClass == idNever {
					pr, clause = replayProp, "resume-never-issued"
				}
				o.violate(pr, clause, "sub%d (topics %s, presented %s, accepted at |L|=%d) received %s, want a prefix of %s; L=%s",
					s.id, fmtTopics(s.topics), s.idDesc, s.acceptLpos, tagsOf(sent), w.lTagsAt(expect), w.lTags())
				if s.idClass == idUnset && w.rep.inner != nil && pr != replayProp {
					// a subscriber with nothing to resume from got something from the replayer
					for _, p := range lseq {
						if p < s.acceptLpos {
							o.violate(replayProp, "resume-unset", "sub%d (topics %s) presented no ID but was replayed %s, put before its subscription was accepted at |L|=%d; L=%s",
								s.id, fmtTopics(s.topics), L[p].tag, s.acceptLpos, w.lTags())
							break
						}
					}
				}
				continue
			}
			// must-include
			for k, p := range expect {
				if k < len(lseq) {
					continue
				}
				m := w.msgByTag(L[p].tag)
				if m == nil {
					continue
				}
				mustLive := m.invoked > s.accepted && m.returned != 0 && (endSeq == 0 || m.returned < endSeq) && !errors.Is(m.err, sse.ErrProviderClosed)
				mustReplay := p < s.acceptLpos && (endSeq == 0 || endSeq > s.accepted) && healthy
				if mustLive || mustReplay {
					pr, clause := prop, "missing"
					if mustReplay {
						pr, clause = replayProp, "resume-missing"
					}
					o.violate(pr, clause, "sub%d (topics %s, presented %s, accepted at |L|=%d) never received %s; got %s; L=%s",
						s.id, fmtTopics(s.topics), s.idDesc, s.acceptLpos, L[p].tag, tagsOf(sent), w.lTags())
					break
				}
			}
		} else {
			// weaker: live part must be contiguous from acceptance
			w.checkMustInclude(s, seenBase, endSeq, prop)
		}
	}
}

func firstSendSeq(s *joeSub) int {
	for _, c := range s.sub.Calls {
		if !c.Flush {
			return c.Step
		}
	}
	return 0
}

// checkMustInclude is the time-based lower bound that needs no witness.
func (w *joeWorld) checkMustInclude(s *joeSub, got map[string]int, endSeq int, prop string) {
	need := map[string]int{}
	for _, m := range w.allMsgs {
		if m.invoked == 0 || m.returned == 0 || errors.Is(m.err, sse.ErrProviderClosed) {
			continue
		}
		if !topicsIntersect(s.topics, m.topics) {
			continue
		}
		if m.invoked > s.accepted && (endSeq == 0 || m.returned < endSeq) {
			base := msgTag(m.msg)
			need[base]++
			if got[base] < need[base] {
				w.o.violate(prop, "missing", "sub%d (topics %s) never received %s, published entirely within its subscription; got %s", s.id, fmtTopics(s.topics), m.tag, tagsOf(s.sub.Sent()))
				if w.shutdownSeq != 0 && m.err == nil {
					// "every pending and future Publish returns (delivered, or ErrProviderClosed)": this one returned nil
					w.o.violate("C07", "publish-nil-not-delivered", "Publish(%s) returned nil before Shutdown was called, but sub%d, registered and matching, never received it", m.tag, s.id)
				}
				return
			}
		}
	}
}

// checkWitnessFree: clauses that need no Put-order witness — per-publisher
// program order at every subscriber, and any two subscribers agree on the
// relative order of the messages both received.
func (w *joeWorld) checkWitnessFree() {
	prop := "C03"
	if w.faults {
		prop = "C17"
	}
	repeated := map[string]int{}
	for _, pm := range w.allMsgs {
		repeated[msgTag(pm.msg)]++
	}
	orderOf := func(s *joeSub) map[string]int {
		m := map[string]int{}
		for i, msg := range s.sub.Sent() {
			if repeated[msgTag(msg)] > 1 {
				continue // the same *Message published several times: occurrences cannot be told apart here
			}
			if _, dup := m[msgTag(msg)]; !dup {
				m[msgTag(msg)] = i
			}
		}
		return m
	}
	var orders []map[string]int
	for _, s := range w.subs {
		orders = append(orders, orderOf(s))
	}
	// program order of one publisher
	for si, s := range w.subs {
		for _, p := range w.pubs {
			last := -1
			for _, m := range p.msgs {
				if pos, ok := orders[si][m.tag]; ok {
					if pos < last {
						w.o.violate(prop, "program-order", "sub%d received pub%d's %s before an earlier message of the same publisher: %s", s.id, p.id, m.tag, tagsOf(s.sub.Sent()))
					}
					last = pos
				}
			}
		}
	}
	// pairwise agreement
	for a := 0; a < len(w.subs); a++ {
		for b := a + 1; b < len(w.subs); b++ {
			var common []string
			for tag := range orders[a] {
				if _, ok := orders[b][tag]; ok {
					common = append(common, tag)
				}
			}
			for i := 0; i < len(common); i++ {
				for j := i + 1; j < len(common); j++ {
					x, y := common[i], common[j]
					if (orders[a][x] < orders[a][y]) != (orders[b][x] < orders[b][y]) {
						w.o.violate(prop, "order-disagreement", "sub%d and sub%d saw %s and %s in opposite orders", w.subs[a].id, w.subs[b].id, x, y)
						return
					}
				}
			}
		}
	}
}

func (w *joeWorld) checkFlushDiscipline(s *joeSub) {
	calls := s.sub.Calls
	// replay part: Sends then one Flush; live part: Send Flush pairs. In both
	// cases: no successful Send may remain unflushed when Joe moves on, i.e. the
	// call after a run of successful Sends is a Flush, and the log does not end
	// in a successful Send.
	for i, c := range calls {
		if c.Flush || c.Err != nil {
			continue
		}
		live := i >= s.replayedCalls()
		if live {
			if i+1 >= len(calls) || !calls[i+1].Flush {
				w.o.violate("C03", "flush", "sub%d: live Send of %s was not followed by a Flush", s.id, msgTag(c.Msg))
				return
			}
		} else if i+1 >= len(calls) {
			w.o.violate("C03", "flush", "sub%d: replayed %s was never flushed", s.id, msgTag(c.Msg))
			return
		}
	}
}

// replayedCalls is the number of calls made during the Replay call.
func (s *joeSub) replayedCalls() int {
	n := 0
	sends := 0
	for _, c := range s.sub.Calls {
		if sends >= s.replayedN {
			break
		}
		n++
		if !c.Flush {
			sends++
		}
	}
	return n
}

func (w *joeWorld) checkReplayerUse() {
	if w.rep.afterPan > 0 {
		w.o.violate("C17", "replayer-used-after-panic", "%d calls reached the replayer after it had panicked", w.rep.afterPan)
	}
	if w.rep.concurrent > 0 {
		w.o.violate("C03", "replayer-concurrent", "%d replayer calls overlapped another one", w.rep.concurrent)
	}
}

func (w *joeWorld) msgByTag(tag string) *pubMsg {
	for _, m := range w.allMsgs {
		if m.tag == tag {
			return m
		}
	}
	return nil
}

func (w *joeWorld) lTags() string {
	t := make([]string, len(w.rep.puts))
	for i, e := range w.rep.puts {
		t[i] = e.tag + fmtTopics(e.topics)
	}
	return "[" + strings.Join(t, " ") + "]"
}

func (w *joeWorld) lTagsAt(idx []int) string {
	t := make([]string, len(idx))
	for i, p := range idx {
		t[i] = w.rep.puts[p].tag
	}
	return "[" + strings.Join(t, " ") + "]"
}

func (w *joeWorld) probes() {
	o := w.o
	for _, s := range w.subs {
		if s.accepted == 0 {
			continue
		}
		multi := 0
		for _, e := range w.rep.puts {
			n := 0
			for _, a := range s.topics {
				for _, b := range e.topics {
					if a == b {
						n++
					}
				}
			}
			if n >= 2 {
				multi++
			}
		}
		if multi > 0 {
			o.probe("message matching a subscriber on >= 2 topics")
		}
		if s.idLpos >= 0 && s.idClass == idNewest {
			o.probe("newest ID presented")
		}
		if s.idLpos >= 0 && s.acceptLpos > 0 && len(w.rep.puts) > s.acceptLpos {
			o.probe("resume with publishes before and after acceptance")
		}
		if s.replayedN > 0 {
			o.probe("subscriber got replayed events")
		}
		if s.sub.Failed != nil && s.cancelReq != 0 {
			o.probe("failure and cancellation of the same subscriber")
		}
		for _, m := range w.allMsgs {
			if m.invoked != 0 && m.invoked < s.accepted && m.returned > s.accepted {
				o.probe("publish in flight while a subscriber was accepted")
				break
			}
		}
	}
	nInv := 0
	for _, sd := range w.allShutdowns() {
		if sd.invoked != 0 {
			nInv++
		}
	}
	if nInv >= 2 {
		o.probe("two or more Shutdown calls")
	}
	for _, sd := range w.allShutdowns() {
		if sd.err != nil && sd.ctxErr != nil && errors.Is(sd.err, sd.ctxErr) {
			o.probe("Shutdown ended by its context")
		}
	}
	for _, m := range w.allMsgs {
		if errors.Is(m.err, sse.ErrProviderClosed) {
			o.probe("Publish rejected with ErrProviderClosed")
			break
		}
	}
	if w.rep.panicked {
		o.probe("replayer panicked")
	}
}

func init() {
	real := []string{"sse.Joe (Subscribe, Publish, Shutdown, loop goroutine), instrumented copy", "sse.FiniteReplayer / sse.ValidReplayer behind the recording wrapper", "sse.Message", "context", "Go runtime channels and select (ordered try phase generated)"}
	stub := []string{"subscribers (MessageWriter) with fault plans", "recording / fault-injecting Replayer wrapper (linearisation witness)", "scheduler: synctest bubble + generated yield points"}
	common := "each evaluation draws a scenario (replayer: none at all (Joe's built-in no-op) / recording wrapper only / real FiniteReplayer / real ValidReplayer with a huge or a real TTL on the fake clock; ID mode; 1-3 publishers with up to 12 messages over topic subsets of {\"\",a,b,c} (sometimes with a repeated topic, an odd glued-together name, prefixes of one shared array, no topic at all; one run in 20 over a universe of a hundred names with up to 90 per subscription), 1-4 subscribers with topics / presented Last-Event-ID / slowness / contexts of several kinds (one run in 40 of C03, C06, C07: a crowd of 64-70, most of which leave again), cancellers, Shutdown tasks) and a schedule (which parked task runs next, select case order, map iteration order, optional time ticks), all from the run's choice trace. "
	nontriv := " Non-trivial: at least one delivery and more than 20 scheduler steps; distinct = distinct (scenario, scheduling-decision hash)."
	assum := []string{
		"interleavings at the granularity of channel operations, select statements, lock operations and simulated-party calls",
		"the order of Replayer.Put calls is the linearisation witness; the Replay call for a subscription marks its acceptance",
		"Send/Flush of simulated subscribers always return",
	}
	register(&World{Name: "joe", Level: "exploration", Rule: common + "Fault-free configuration (no failing subscriber or replayer)." + nontriv, Real: real, Stub: stub, Assumptions: assum,
		MustProbes: []string{"message matching a subscriber on >= 2 topics", "publish in flight while a subscriber was accepted"}, Run: runJoeWorld}, "C03")
	register(&World{Name: "joe", Level: "exploration", Rule: common + "Fault-free configuration with a real FiniteReplayer (capacity 2-6) or ValidReplayer, a sequential pre-history of 0..capacity+3 publishes and resuming subscribers (oldest / middle / newest / evicted / never-issued / unset ID)." + nontriv, Real: real, Stub: stub, Assumptions: assum,
		MustProbes: []string{"newest ID presented", "resume with publishes before and after acceptance", "subscriber got replayed events"}, Run: runJoeWorld}, "C04")
	register(&World{Name: "joe", Level: "exploration", Rule: common + "Fault configuration: k-th Send/Flush of chosen subscribers fails, optionally cancelling that subscriber's own context inside the failing call, Replay returns an error, cancels and shutdowns race." + nontriv, Real: real, Stub: stub, Assumptions: assum,
		MustProbes: []string{"failure and cancellation of the same subscriber"}, Run: runJoeWorld}, "C06")
	register(&World{Name: "joe", Level: "exploration", Rule: common + "0-3 extra Shutdown tasks at any point (live, expired or expiring context) plus a final Shutdown; fault-free and fault configurations." + nontriv, Real: real, Stub: stub, Assumptions: assum,
		MustProbes: []string{"two or more Shutdown calls", "Shutdown ended by its context", "Publish rejected with ErrProviderClosed"}, Run: runJoeWorld}, "C07")
	register(&World{Name: "joe", Level: "exploration", Rule: common + "Fault configuration with at least one healthy subscriber: subscriber Send/Flush failures, Put / Replay errors and panics at chosen calls." + nontriv, Real: real, Stub: stub, Assumptions: assum,
		MustProbes: []string{"replayer panicked"}, Run: runJoeWorld}, "C17")
}
