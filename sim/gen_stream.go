package sim

import (
	"context"
	"errors"
	"io"
	"net"
	"net/http"
	"os"
	"strings"
)

// protocol-biased token alphabet for event streams (DESIGN.md C01)
var streamTokens = []string{
	"data", "event", "id", "retry",
	"\n", "\n", "\r", "\r\n", "\n\n", "\r\n\r\n",
	":", ": ", " ", ":",
	"dat", "datA", " data", "data ", "Data", "ids", "i", "retryy", "message", "even",
	"\xEF\xBB\xBF", "\x00",
	"0", "5", "12", "007", "1000", "999999999999", "+", "-", "+5", "-0", " 7", "7 ", "1e3", "0x10",
	"x", "y", "hello", "é", "€", "\xff", "\xe2\x82", "\t", "a:b", "::",
}

var fieldNames = []string{"data", "data", "data", "event", "id", "retry", "dat", "Data", "retry ", " id", "", "comment", "\xEF\xBB\xBFdata"}
var fieldValues = []string{"", "x", "y", " x", "  two", "a:b", ":", "hello world", "5", "12", "007", "+5", "-0", "1e3", "999999999999", "1000000000000", "\x00", "a\x00b", "é", "€", "\xff\xfe", "\xEF\xBB\xBF", "data: z", "\t", "message"}
var lineEnds = []string{"\n", "\n", "\n", "\r", "\r\n", "\r\n"}

// genStream draws a byte string biased towards event-stream syntax.
func genStream(ch *Chooser) []byte {
	var sb strings.Builder
	if ch.Chance(1, 8, "bom at start") {
		sb.WriteString("\xEF\xBB\xBF")
	}
	mode := ch.Weighted([]int{6, 3, 1}, "stream mode") // 0 line-structured, 1 token soup, 2 mixed
	// items are preceded by a "more?" draw (not a count drawn up front), so that
	// deleting an item's choices from a trace deletes exactly that item
	num, den := 1, 2
	switch ch.Weighted([]int{6, 6, 3}, "stream length class") {
	case 1:
		num, den = 5, 6
	case 2:
		num, den = 15, 16
	}
	for i := 0; i < 40 && ch.Chance(num, den, "more items"); i++ {
		structured := mode == 0 || (mode == 2 && ch.Chance(1, 2, "structured?"))
		if !structured {
			sb.WriteString(streamTokens[ch.Intn(len(streamTokens), "token")])
			continue
		}
		switch ch.Weighted([]int{10, 4, 1, 1}, "line kind") {
		case 0: // field line
			sb.WriteString(fieldNames[ch.Intn(len(fieldNames), "field name")])
			switch ch.Weighted([]int{6, 3, 1}, "separator") {
			case 0:
				sb.WriteString(": ")
			case 1:
				sb.WriteString(":")
			}
			sb.WriteString(fieldValues[ch.Intn(len(fieldValues), "field value")])
			sb.WriteString(lineEnds[ch.Intn(len(lineEnds), "eol")])
		case 1: // blank line
			sb.WriteString(lineEnds[ch.Intn(len(lineEnds), "eol")])
		case 2: // comment
			sb.WriteString(":" + fieldValues[ch.Intn(len(fieldValues), "comment")])
			sb.WriteString(lineEnds[ch.Intn(len(lineEnds), "eol")])
		case 3: // long filler crossing buffer sizes
			sizes := []int{4000, 4090, 4096, 4100, 8192, 20000, 4000, 4096, 33000, 61000}
			sz := sizes[ch.Intn(len(sizes), "filler size")] + ch.Range(0, 8, "filler jitter")
			sb.WriteString("data: ")
			sb.WriteString(strings.Repeat("a", sz))
			sb.WriteString(lineEnds[ch.Intn(len(lineEnds), "eol")])
		}
	}
	if ch.Chance(3, 4, "terminate") {
		sb.WriteString(lineEnds[ch.Intn(len(lineEnds), "eol")])
		if ch.Chance(1, 2, "blank") {
			sb.WriteString(lineEnds[ch.Intn(len(lineEnds), "eol")])
		}
	}
	return []byte(sb.String())
}

// errInjected is the base of every injected I/O error.
type injectedError struct{ what string }

func (e *injectedError) Error() string { return "injected: " + e.what }

func newInjected(what string) error { return &injectedError{what: what} }

// disguisedError is an injected error that also matches a well-known sentinel under errors.Is
// (a backend that reports "context canceled" or io.EOF of its own while the caller's context is
// alive): code that classifies errors by such sentinels must not mistake it for its own condition.
type disguisedError struct {
	inj *injectedError
	as  error
}

func (e *disguisedError) Error() string   { return e.inj.Error() + ": " + e.as.Error() }
func (e *disguisedError) Unwrap() []error { return []error{e.inj, e.as} }

// newInjectedAs returns an injected error that matches as (nil: a plain injected error).
func newInjectedAs(what string, as error) error {
	if as == nil {
		return newInjected(what)
	}
	return &disguisedError{inj: &injectedError{what: what}, as: as}
}

var disguises = []error{context.Canceled, context.DeadlineExceeded, io.EOF, io.ErrUnexpectedEOF, http.ErrNotSupported, os.ErrDeadlineExceeded, net.ErrClosed}

// drawDisguise picks nil (mostly) or a sentinel for newInjectedAs.
func drawDisguise(ch *Chooser, label string) error {
	if !ch.Chance(1, 5, label+" matches a sentinel") {
		return nil
	}
	return disguises[ch.Intn(len(disguises), label+" sentinel")]
}

func isInjected(err error) bool {
	var ie *injectedError
	return errors.As(err, &ie)
}

// simReader serves data[:end] in chunks and then ends with endErr (io.EOF for a
// clean end). Chunk sizes come from plan (cyclic) or, when plan is nil, from
// the chooser.
type simReader struct {
	data      []byte
	end       int
	endErr    error
	withData  bool // deliver the final chunk together with endErr
	plan      []int
	pi        int
	ch        *Chooser
	pos       int
	reads     int
	emptyRuns int
	afterEnd  int // Read calls after the end was reported
	ended     bool
	cuts      []int // offsets at which a read ended
	onRead    func(pos int)
}

func (r *simReader) Read(p []byte) (int, error) {
	r.reads++
	if r.onRead != nil {
		r.onRead(r.pos)
	}
	if r.ended {
		r.afterEnd++
		return 0, r.endErr
	}
	if r.pos >= r.end {
		r.ended = true
		return 0, r.endErr
	}
	n := 0
	if r.plan != nil {
		n = r.plan[r.pi%len(r.plan)]
		r.pi++
	} else {
		switch r.ch.Weighted([]int{4, 3, 2, 2, 1}, "chunk class") {
		case 0:
			n = r.end - r.pos
		case 1:
			n = 1
		case 2:
			n = r.ch.Range(2, 5, "chunk")
		case 3:
			n = r.ch.Range(1, 64, "chunk")
		case 4:
			n = 0
		}
	}
	if n == 0 {
		r.emptyRuns++
		if r.emptyRuns > 3 {
			n = 1
		} else {
			return 0, nil
		}
	}
	r.emptyRuns = 0
	if n > len(p) {
		n = len(p)
	}
	if n > r.end-r.pos {
		n = r.end - r.pos
	}
	copy(p, r.data[r.pos:r.pos+n])
	r.pos += n
	r.cuts = append(r.cuts, r.pos)
	if r.pos >= r.end && r.withData {
		r.ended = true
		return n, r.endErr
	}
	return n, nil
}

var _ io.Reader = (*simReader)(nil)
