package sim

import "time"

// shrinkTrace minimises a choice trace while test keeps returning a (possibly
// canonicalised) trace, i.e. while the same violation class persists. test
// returns the trace actually consumed by the run and whether it still fails.
func shrinkTrace(trace []uint32, test func([]uint32) ([]uint32, bool), budget time.Duration) ([]uint32, int) {
	deadline := time.Now().Add(budget)
	tests := 0
	try := func(cand []uint32) ([]uint32, bool) {
		tests++
		return test(cand)
	}
	cur := append([]uint32(nil), trace...)
	// canonicalise
	if c, ok := try(cur); ok {
		cur = c
	}
	trim := func(t []uint32) []uint32 {
		for len(t) > 0 && t[len(t)-1] == 0 {
			t = t[:len(t)-1]
		}
		return t
	}
	cur = trim(cur)
	improved := true
	for improved && time.Now().Before(deadline) {
		improved = false
		// delete spans
		for size := len(cur) / 2; size >= 1; size /= 2 {
			for i := 0; i+size <= len(cur) && time.Now().Before(deadline); {
				cand := append(append([]uint32(nil), cur[:i]...), cur[i+size:]...)
				if c, ok := try(cand); ok && len(trim(c)) < len(cur) {
					cur = trim(c)
					improved = true
				} else {
					i += size
				}
			}
		}
		// delete short spans of every size at every position (items of a
		// generator consume a handful of consecutive choices)
		for size := 12; size >= 1; size-- {
			for i := 0; i+size <= len(cur) && time.Now().Before(deadline); {
				cand := append(append([]uint32(nil), cur[:i]...), cur[i+size:]...)
				if c, ok := try(cand); ok && len(trim(c)) < len(cur) {
					cur = trim(c)
					improved = true
				} else {
					i++
				}
			}
		}
		// zero spans
		for size := len(cur) / 2; size >= 1; size /= 2 {
			for i := 0; i+size <= len(cur) && time.Now().Before(deadline); i += size {
				allZero := true
				for _, v := range cur[i : i+size] {
					if v != 0 {
						allZero = false
						break
					}
				}
				if allZero {
					continue
				}
				cand := append([]uint32(nil), cur...)
				for j := i; j < i+size; j++ {
					cand[j] = 0
				}
				if c, ok := try(cand); ok && less(trim(c), cur) {
					cur = trim(c)
					improved = true
				}
			}
		}
		// lower single values
		for i := 0; i < len(cur) && time.Now().Before(deadline); i++ {
			for cur[i] > 0 && time.Now().Before(deadline) {
				lowered := false
				for _, nv := range []uint32{cur[i] / 2, cur[i] - 1} {
					if nv >= cur[i] {
						continue
					}
					cand := append([]uint32(nil), cur...)
					cand[i] = nv
					if c, ok := try(cand); ok && less(trim(c), cur) {
						cur = trim(c)
						improved = true
						lowered = true
						break
					}
				}
				if !lowered || i >= len(cur) {
					break
				}
			}
		}
	}
	return cur, tests
}

// less orders traces by (length, lexicographic).
func less(a, b []uint32) bool {
	if len(a) != len(b) {
		return len(a) < len(b)
	}
	for i := range a {
		if a[i] != b[i] {
			return a[i] < b[i]
		}
	}
	return false
}
