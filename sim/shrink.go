package sim

import "time"

// shrinkTrace minimises a choice trace, stream by stream (generation,
// scheduling, select/map orders, I/O chunking), while test keeps reporting the
// same violation class. test returns the trace actually consumed by the run
// (canonical form) and whether it still fails.
func shrinkTrace(trace Trace, test func(Trace) (Trace, bool), budget time.Duration) (Trace, int) {
	deadline := time.Now().Add(budget)
	tests := 0
	cur := trace.clone()
	if c, ok := test(cur); ok {
		cur = c.trimmed()
	}
	tests++
	improved := true
	for improved && time.Now().Before(deadline) {
		improved = false
		for s := 0; s < nStreams && time.Now().Before(deadline); s++ {
			s := s
			try := func(cand []uint32) bool {
				tests++
				full := cur.clone()
				full[s] = cand
				c, ok := test(full)
				if !ok {
					return false
				}
				c = c.trimmed()
				if !c.less(cur) {
					return false
				}
				cur = c
				improved = true
				return true
			}
			shrinkStream(func() []uint32 { return cur[s] }, try, deadline)
		}
	}
	return cur, tests
}

// shrinkStream runs the one-dimensional passes on one stream. get returns the
// stream's current content (it changes whenever try succeeds).
func shrinkStream(get func() []uint32, try func([]uint32) bool, deadline time.Time) {
	alive := func() bool { return time.Now().Before(deadline) }
	// delete spans, halving
	for size := len(get()) / 2; size >= 1 && alive(); size /= 2 {
		for i := 0; i+size <= len(get()) && alive(); {
			cur := get()
			cand := append(append([]uint32(nil), cur[:i]...), cur[i+size:]...)
			if !try(cand) {
				i += size
			}
		}
	}
	// delete short spans of every size at every position (items of a generator
	// consume a handful of consecutive choices)
	for size := 12; size >= 1 && alive(); size-- {
		for i := 0; i+size <= len(get()) && alive(); {
			cur := get()
			cand := append(append([]uint32(nil), cur[:i]...), cur[i+size:]...)
			if !try(cand) {
				i++
			}
		}
	}
	// zero spans
	for size := len(get()) / 2; size >= 1 && alive(); size /= 2 {
		for i := 0; i+size <= len(get()) && alive(); i += size {
			cur := get()
			allZero := true
			for _, v := range cur[i : i+size] {
				if v != 0 {
					allZero = false
					break
				}
			}
			if allZero {
				continue
			}
			cand := append([]uint32(nil), cur...)
			for j := i; j < i+size; j++ {
				cand[j] = 0
			}
			try(cand)
		}
	}
	// lower single values
	for i := 0; i < len(get()) && alive(); i++ {
		for alive() {
			cur := get()
			if i >= len(cur) || cur[i] == 0 {
				break
			}
			lowered := false
			for _, nv := range []uint32{0, cur[i] / 2, cur[i] - 1} {
				if nv >= cur[i] {
					continue
				}
				cand := append([]uint32(nil), cur...)
				cand[i] = nv
				if try(cand) {
					lowered = true
					break
				}
			}
			if !lowered {
				break
			}
		}
	}
}
