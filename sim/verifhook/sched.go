package verifhook

import (
	"fmt"
	"hash/fnv"
	"reflect"
	"runtime"
	"sort"
	"strings"
	"sync"
	"sync/atomic"
	"testing/synctest"
	"time"
)

// Chooser is the single source of every nondeterministic decision of a run.
type Chooser interface {
	// Choose returns a value in [0, n). n must be positive.
	Choose(n int, label string) int
}

type parkKind uint8

const (
	parkStart parkKind = iota
	parkYield
	parkAfter
	parkLock
	parkCond
	parkWeak // a condition that is waived when nothing else can run
)

const (
	stNew uint8 = iota
	stParked
	stRunning
	stFinished
)

// Task is one simulated task: a real goroutine that only runs between being
// released by the scheduler and its next scheduling point.
type Task struct {
	ID       int
	Name     string
	Internal bool // started by instrumented go-sse code (go statement)
	Daemon   bool // need not finish for the run to count as complete

	wake  chan struct{}
	state uint8
	site  string
	kind  parkKind
	cond  func() bool
	mu    any
	lkind string

	weakRank int
	prio     int            // PCT priority (higher runs first)
	held     map[any]string // locks held by this task (lock model), value "r" or "w"

	blockedAt string
	Panic     any
	PanicInfo string
}

// Finished reports whether the task's function returned (or panicked).
func (t *Task) Finished() bool { return t.state == stFinished }

// Site is the last scheduling point or blocking site of the task.
func (t *Task) Site() string {
	if t.blockedAt != "" {
		return "blocked@" + t.blockedAt
	}
	return t.site
}

// Event is one entry of the run's history.
type Event struct {
	Step   int
	Task   int // -1: scheduler
	Kind   string
	Detail string
}

func (e Event) String() string {
	return fmt.Sprintf("%4d t%-2d %-10s %s", e.Step, e.Task, e.Kind, e.Detail)
}

// Config bounds and tunes one run.
type Config struct {
	MaxSteps  int           // scheduler decisions before the run is cut (inconclusive)
	Horizon   time.Duration // simulated time after which an idle system ends the run
	TickOneIn int           // with runnable tasks: let time pass first with probability 1/TickOneIn (0: never)
	Sticky    int           // extra weight (in candidates) for continuing the task that ran last
	// PCT > 0 selects priority scheduling (Burckhardt et al., "A randomized scheduler with
	// probabilistic guarantees of finding bugs"): every task gets a random priority when it
	// is spawned, the runnable task with the highest priority always runs, and at PCT
	// randomly placed steps the running task's priority drops below all others. Finds
	// orderings that need one task to be starved for a long time, which a uniform choice
	// at every step almost never produces.
	PCT     int
	KeepLog bool // keep the full event list (else only hash and counters)
	// TickBeforeWaive n > 1: when only weak waits could be waived, let time pass
	// first with probability (n-1)/n, for up to an hour of simulated time.
	TickBeforeWaive int
}

type lockState struct {
	writer  *Task
	readers int
}

// Sim is the deterministic scheduler. All exported methods are meant to be
// called either by the bubble's root goroutine (New, Spawn, Run, Abort) or by
// the single task that is currently released.
type Sim struct {
	cfg     Config
	ch      Chooser
	aborted atomic.Bool

	mu        sync.Mutex
	tasks     []*Task
	byGoid    map[uint64]*Task
	locks     map[any]*lockState
	notify    chan struct{}
	last      *Task
	step      int
	events    []Event
	hash      uint64
	nEvents   int
	start     time.Time
	ranker    func(key, value any) (int64, bool)
	onStep    func()
	shadows   map[uintptr]*shadow
	races     []Race
	pctPoints map[int]bool
	pctLow    int

	// counters
	Switches   int
	Ticks      int
	SelectPerm int
	MapPerm    int
	schedHash  uint64
}

// New creates a simulator; it must be created inside the synctest bubble.
func New(ch Chooser, cfg Config) *Sim {
	if cfg.MaxSteps <= 0 {
		cfg.MaxSteps = 2000
	}
	if cfg.Horizon <= 0 {
		cfg.Horizon = time.Hour
	}
	h := fnv.New64a()
	return &Sim{
		cfg: cfg, ch: ch,
		byGoid: map[uint64]*Task{},
		locks:  map[any]*lockState{},
		notify: make(chan struct{}, 1),
		start:  time.Now(),
		hash:   h.Sum64(), schedHash: h.Sum64(),
	}
}

// SetRanker installs the function that gives map keys of non-basic type a
// stable rank (used for the base order of instrumented map ranges).
func (s *Sim) SetRanker(f func(key, value any) (int64, bool)) { s.ranker = f }

// SetOnStep installs a function the scheduler calls at every quiescent point
// (all tasks parked or blocked), before it picks the next task.
func (s *Sim) SetOnStep(f func()) { s.onStep = f }

// Elapsed is the simulated time since the simulator was created.
func (s *Sim) Elapsed() time.Duration { return time.Since(s.start) }

// Step is the number of scheduler decisions made so far.
func (s *Sim) Step() int { return s.step }

func goid() uint64 {
	var buf [64]byte
	n := runtime.Stack(buf[:], false)
	// "goroutine 123 ["
	var id uint64
	for _, c := range buf[10:n] {
		if c < '0' || c > '9' {
			break
		}
		id = id*10 + uint64(c-'0')
	}
	return id
}

func (s *Sim) self() *Task {
	g := goid()
	s.mu.Lock()
	t := s.byGoid[g]
	s.mu.Unlock()
	return t
}

// Self returns the calling task (nil if the caller is not a simulated task).
func (s *Sim) Self() *Task { return s.self() }

// Log appends an event on behalf of the calling task.
func (s *Sim) Log(kind, detail string) {
	if s.aborted.Load() {
		return
	}
	id := -1
	if t := s.self(); t != nil {
		id = t.ID
	}
	s.mu.Lock()
	s.logLocked(id, kind, detail)
	s.mu.Unlock()
}

// Logf is Log with formatting.
func (s *Sim) Logf(kind, format string, a ...any) { s.Log(kind, fmt.Sprintf(format, a...)) }

func (s *Sim) logLocked(task int, kind, detail string) {
	s.nEvents++
	h := s.hash
	mix := func(str string) {
		for i := 0; i < len(str); i++ {
			h ^= uint64(str[i])
			h *= 1099511628211
		}
		h ^= 0xff
		h *= 1099511628211
	}
	h ^= uint64(s.step)<<8 ^ uint64(task+1)
	h *= 1099511628211
	mix(kind)
	mix(detail)
	s.hash = h
	if s.cfg.KeepLog {
		s.events = append(s.events, Event{Step: s.step, Task: task, Kind: kind, Detail: detail})
	}
}

// Events returns the recorded history (only with Config.KeepLog).
func (s *Sim) Events() []Event { return s.events }

// Hash is a hash of the complete history so far.
func (s *Sim) Hash() uint64 { return s.hash }

// SchedHash is a hash of the scheduling decisions only (task, site, select and
// map orders).
func (s *Sim) SchedHash() uint64 { return s.schedHash }

// NumEvents is the number of history entries so far.
func (s *Sim) NumEvents() int { return s.nEvents }

// Tasks returns all tasks in id order.
func (s *Sim) Tasks() []*Task { return s.tasks }

// Spawn starts f as a new task. It may be called by the root goroutine before
// Run, or by the running task.
func (s *Sim) Spawn(name string, f func()) *Task {
	return s.spawn(s.self(), name, f, false)
}

// SpawnDaemon is Spawn for a task that need not finish.
func (s *Sim) SpawnDaemon(name string, f func()) *Task {
	t := s.spawn(s.self(), name, f, false)
	t.Daemon = true
	return t
}

func (s *Sim) spawn(parent *Task, name string, f func(), internal bool) *Task {
	t := &Task{Name: name, Internal: internal, wake: make(chan struct{})}
	s.mu.Lock()
	t.ID = len(s.tasks)
	if s.cfg.PCT > 0 {
		t.prio = 1000 + s.ch.Choose(1000, "pct priority")
	}
	s.tasks = append(s.tasks, t)
	pid := -1
	if parent != nil {
		pid = parent.ID
	}
	s.logLocked(pid, "spawn", fmt.Sprintf("t%d %s", t.ID, name))
	s.mu.Unlock()
	go func() {
		g := goid()
		s.mu.Lock()
		s.byGoid[g] = t
		s.mu.Unlock()
		defer func() {
			r := recover()
			s.mu.Lock()
			delete(s.byGoid, g)
			t.state = stFinished
			t.blockedAt = ""
			if r != nil && !s.aborted.Load() {
				t.Panic = r
				t.PanicInfo = fmt.Sprint(r) + " @ " + panicSite()
				s.logLocked(t.ID, "panic", t.PanicInfo)
			} else if !s.aborted.Load() {
				s.logLocked(t.ID, "exit", "")
			}
			s.mu.Unlock()
			s.poke()
		}()
		s.park(t, "start", parkStart, nil, nil, "")
		f()
	}()
	return t
}

// panicSite extracts the first frame below the runtime from the panicking
// goroutine's stack (called from the deferred recover).
func panicSite() string {
	pc := make([]uintptr, 32)
	n := runtime.Callers(3, pc)
	frames := runtime.CallersFrames(pc[:n])
	for {
		fr, more := frames.Next()
		if fr.Function != "" && !strings.HasPrefix(fr.Function, "runtime.") && !strings.Contains(fr.Function, "verifhook.") {
			file := fr.File
			if i := strings.LastIndexByte(file, '/'); i >= 0 {
				file = file[i+1:]
			}
			fn := fr.Function
			if i := strings.LastIndexByte(fn, '/'); i >= 0 {
				fn = fn[i+1:]
			}
			return fmt.Sprintf("%s (%s)", fn, file)
		}
		if !more {
			return "?"
		}
	}
}

// Poke wakes the scheduler if it is letting simulated time pass (for timers
// owned by scenario code, e.g. context deadlines).
func (s *Sim) Poke() { s.poke() }

func (s *Sim) poke() {
	select {
	case s.notify <- struct{}{}:
	default:
	}
}

func (s *Sim) park(t *Task, site string, kind parkKind, cond func() bool, mu any, lkind string) {
	s.mu.Lock()
	t.state = stParked
	t.site = site
	t.kind = kind
	t.cond = cond
	t.mu = mu
	t.lkind = lkind
	t.blockedAt = ""
	s.mu.Unlock()
	s.poke()
	<-t.wake
	if s.aborted.Load() {
		runtime.Goexit()
	}
}

func (s *Sim) noteBlocking(t *Task, site string) {
	s.mu.Lock()
	t.blockedAt = site
	s.mu.Unlock()
}

func (s *Sim) unlock(t *Task, mu any, kind string) {
	s.mu.Lock()
	delete(t.held, mu)
	ls := s.locks[mu]
	if ls != nil {
		if kind == "r" {
			if ls.readers > 0 {
				ls.readers--
			}
		} else {
			ls.writer = nil
		}
		if ls.writer == nil && ls.readers == 0 {
			delete(s.locks, mu)
		}
	}
	s.mu.Unlock()
}

// tryAcquire is the model's side of TryLock / TryRLock.
func (s *Sim) tryAcquire(t *Task, mu any, kind string, try func() bool) bool {
	s.mu.Lock()
	free := s.lockFree(mu, kind)
	if free {
		if t.held == nil {
			t.held = map[any]string{}
		}
		t.held[mu] = kind
		ls := s.locks[mu]
		if ls == nil {
			ls = &lockState{}
			s.locks[mu] = ls
		}
		if kind == "r" {
			ls.readers++
		} else {
			ls.writer = t
		}
	}
	s.mu.Unlock()
	if !free {
		return false
	}
	if !try() {
		// the model said free but the real lock is taken: give the model's hold back
		s.unlock(t, mu, kind)
		return false
	}
	return true
}

func (s *Sim) lockFree(mu any, kind string) bool {
	ls := s.locks[mu]
	if ls == nil {
		return true
	}
	if kind == "r" {
		return ls.writer == nil
	}
	return ls.writer == nil && ls.readers == 0
}

func (s *Sim) acquire(t *Task) {
	if t.held == nil {
		t.held = map[any]string{}
	}
	t.held[t.mu] = t.lkind
	ls := s.locks[t.mu]
	if ls == nil {
		ls = &lockState{}
		s.locks[t.mu] = ls
	}
	if t.lkind == "r" {
		ls.readers++
	} else {
		ls.writer = t
	}
}

// YieldHere is a scheduling point in scenario code.
func (s *Sim) YieldHere(site string) {
	if t := s.self(); t != nil && !s.aborted.Load() {
		s.park(t, site, parkYield, nil, nil, "")
	}
}

// WaitFor parks the calling task until cond (evaluated by the scheduler at
// quiescent points) holds.
func (s *Sim) WaitFor(site string, cond func() bool) {
	if t := s.self(); t != nil && !s.aborted.Load() {
		s.park(t, site, parkCond, cond, nil, "")
	}
}

// WaitWeak parks the calling task until cond holds or until no other task
// can run (start delays are preferences, never a reason for a deadlock).
func (s *Sim) WaitWeak(site string, cond func() bool) { s.WaitWeakRank(site, 0, cond) }

// WaitWeakRank is WaitWeak with a rank: when nothing else can run, only the
// waiting tasks of the lowest rank are released.
func (s *Sim) WaitWeakRank(site string, rank int, cond func() bool) {
	if t := s.self(); t != nil && !s.aborted.Load() {
		t.weakRank = rank
		s.park(t, site, parkWeak, cond, nil, "")
	}
}

// Sleep lets d of simulated time pass for the calling task.
func (s *Sim) Sleep(site string, d time.Duration) {
	t := s.self()
	if t == nil || s.aborted.Load() {
		time.Sleep(d)
		return
	}
	s.park(t, site, parkYield, nil, nil, "")
	s.noteBlocking(t, site)
	time.Sleep(d)
	s.park(t, site, parkAfter, nil, nil, "")
}

// Choose draws from the run's chooser on behalf of the running task or the root.
func (s *Sim) Choose(n int, label string) int {
	if n <= 1 {
		return 0
	}
	return s.ch.Choose(n, label)
}

func (s *Sim) permutation(t *Task, label string, n int) []int {
	out := make([]int, n)
	for i := range out {
		out[i] = i
	}
	if n < 2 {
		return out
	}
	s.mu.Lock()
	for i := 0; i < n-1; i++ {
		j := i + s.ch.Choose(n-i, label)
		out[i], out[j] = out[j], out[i]
	}
	if strings.HasPrefix(label, "select") {
		s.SelectPerm++
	} else {
		s.MapPerm++
	}
	h := s.schedHash
	for _, v := range out {
		h ^= uint64(v + 1)
		h *= 1099511628211
	}
	s.schedHash = h
	s.mu.Unlock()
	return out
}

func sortKeys[K comparable](s *Sim, keys []K, val func(K) any) {
	if len(keys) < 2 {
		return
	}
	type ranked struct {
		k    K
		i    int64
		str  string
		kind int
	}
	rs := make([]ranked, len(keys))
	for i, k := range keys {
		r := ranked{k: k}
		v := reflect.ValueOf(k)
		switch v.Kind() {
		case reflect.Int, reflect.Int8, reflect.Int16, reflect.Int32, reflect.Int64:
			r.i = v.Int()
		case reflect.Uint, reflect.Uint8, reflect.Uint16, reflect.Uint32, reflect.Uint64, reflect.Uintptr:
			r.i = int64(v.Uint())
		case reflect.String:
			r.kind, r.str = 1, v.String()
		default:
			r.kind = 2
			if s.ranker != nil {
				if rank, ok := s.ranker(any(k), val(k)); ok {
					r.i = rank
					break
				}
			}
			r.kind = 3
			r.str = fmt.Sprintf("%v", any(k))
		}
		rs[i] = r
	}
	sort.SliceStable(rs, func(a, b int) bool {
		if rs[a].kind != rs[b].kind {
			return rs[a].kind < rs[b].kind
		}
		if rs[a].i != rs[b].i {
			return rs[a].i < rs[b].i
		}
		return rs[a].str < rs[b].str
	})
	for i := range rs {
		keys[i] = rs[i].k
	}
}

// ---------------------------------------------------------------- lockset data-race check
//
// The scheduler serialises tasks, so the Go race detector would see every
// access ordered by the simulator's own wake-ups. Instead the simulator runs
// the Eraser lockset discipline over the accesses the instrumenter reports
// (map reads/writes, writes of fields reached through pointers) and the lock
// model it maintains anyway: a location touched by two tasks, at least once
// for writing, must be protected by one common lock (a read lock protects
// reads only). Deterministic and replayable like everything else in a run.

type shadowState uint8

const (
	shExclusive shadowState = iota
	shShared
	shSharedMod
)

type shadow struct {
	state     shadowState
	owner     *Task
	lockset   map[any]bool
	reported  bool
	keep      any
	lastSite  string
	lastTask  int
	lastW     bool
	hasOther  bool
	otherSite string
	otherTask int
	otherW    bool
}

// Race is one lockset violation.
type Race struct {
	Kind  string
	Site  string
	Task  int
	Write bool
	Prev  string
	PrevT int
	PrevW bool
}

func (r Race) String() string {
	rw := func(w bool) string {
		if w {
			return "write"
		}
		return "read"
	}
	return fmt.Sprintf("%s %s at %s by t%d and %s at %s by t%d share no lock", r.Kind, rw(r.Write), r.Site, r.Task, rw(r.PrevW), r.Prev, r.PrevT)
}

// Races returns the lockset violations found so far.
func (s *Sim) Races() []Race { return s.races }

func (s *Sim) access(t *Task, site string, id uintptr, write bool, kind string, keep any) {
	s.mu.Lock()
	defer s.mu.Unlock()
	if s.shadows == nil {
		s.shadows = map[uintptr]*shadow{}
	}
	sh := s.shadows[id]
	if sh == nil {
		// keep holds the object so that its address cannot be reused by another object during the run
		s.shadows[id] = &shadow{state: shExclusive, owner: t, lastSite: site, lastTask: t.ID, lastW: write, keep: keep}
		return
	}
	// remember the latest access of the latest *other* task for the report
	if sh.lastTask != t.ID {
		sh.otherSite, sh.otherTask, sh.otherW, sh.hasOther = sh.lastSite, sh.lastTask, sh.lastW, true
	}
	prevSite, prevTask, prevW := sh.otherSite, sh.otherTask, sh.otherW
	if !sh.hasOther {
		prevSite, prevTask, prevW = sh.lastSite, sh.lastTask, sh.lastW
	}
	sh.lastSite, sh.lastTask, sh.lastW = site, t.ID, write
	if sh.state == shExclusive {
		if sh.owner == t || sh.owner.state == stFinished {
			sh.owner = t // a finished task hands its data over (creation before the tasks that share it)
			return
		}
		sh.lockset = map[any]bool{}
		for mu, k := range t.held {
			if !write || k == "w" {
				sh.lockset[mu] = true
			}
		}
		if write {
			sh.state = shSharedMod
		} else {
			sh.state = shShared
		}
	} else {
		for mu := range sh.lockset {
			k, ok := t.held[mu]
			if !ok || (write && k != "w") {
				delete(sh.lockset, mu)
			}
		}
		if write {
			sh.state = shSharedMod
		}
	}
	if sh.state == shSharedMod && len(sh.lockset) == 0 && !sh.reported {
		sh.reported = true
		r := Race{Kind: kind, Site: site, Task: t.ID, Write: write, Prev: prevSite, PrevT: prevTask, PrevW: prevW}
		s.races = append(s.races, r)
		s.logLocked(t.ID, "race", r.String())
	}
}

// Result summarises how a run ended.
type Result struct {
	Steps     int
	CapHit    bool          // step cap reached: inconclusive for liveness
	Idle      bool          // nothing runnable and no timer woke anybody up to the horizon
	SimTime   time.Duration // simulated time covered
	Unfinish  []*Task       // non-daemon tasks that had not finished when the run ended
	Panicked  []*Task
	Hash      uint64
	SchedHash uint64
}

var tickDurations = []time.Duration{time.Millisecond, 50 * time.Millisecond, time.Second, 30 * time.Second}

// Run drives the tasks until all non-daemon tasks have finished, the system is
// idle up to the horizon, or the step cap is reached. It must be called by the
// bubble's root goroutine.
func (s *Sim) Run() Result {
	var res Result
	var idleSlice time.Duration
	for {
		synctest.Wait()
		select {
		case <-s.notify:
		default:
		}
		if s.onStep != nil {
			s.onStep()
		}
		s.mu.Lock()
		var cands, weak []*Task
		pending := false
		for _, t := range s.tasks {
			if t.state != stFinished && !t.Daemon {
				pending = true
			}
			if t.state != stParked {
				continue
			}
			switch t.kind {
			case parkLock:
				if !s.lockFree(t.mu, t.lkind) {
					continue
				}
			case parkCond:
				if t.cond != nil && !t.cond() {
					continue
				}
			case parkWeak:
				if t.cond != nil && !t.cond() {
					weak = append(weak, t)
					continue
				}
			}
			cands = append(cands, t)
		}
		// only preferences could be waived: sometimes let time pass first (a pending
		// timer, e.g. a reconnect, may fire before the waiting tasks move on)
		waive := len(cands) == 0 && len(weak) > 0
		if waive && s.cfg.TickBeforeWaive > 1 && idleSlice < time.Hour && s.ch.Choose(s.cfg.TickBeforeWaive, "tick before waiving?") != 0 {
			waive = false
		}
		if waive {
			lowest := weak[0].weakRank
			for _, t := range weak {
				if t.weakRank < lowest {
					lowest = t.weakRank
				}
			}
			for _, t := range weak {
				if t.weakRank == lowest {
					cands = append(cands, t)
				}
			}
		}
		if !pending {
			s.mu.Unlock()
			break
		}
		if s.step >= s.cfg.MaxSteps {
			res.CapHit = true
			s.mu.Unlock()
			break
		}
		s.step++
		if len(cands) == 0 {
			s.mu.Unlock()
			// Nothing can run: let time pass. Timers that wake no task (a context
			// deadline somebody polls through WaitFor) do not notify the scheduler,
			// so time passes in growing slices and conditions are looked at again
			// after each.
			remaining := s.cfg.Horizon - time.Since(s.start)
			if remaining <= 0 {
				res.Idle = true
				break
			}
			if idleSlice == 0 {
				idleSlice = time.Millisecond
			} else if idleSlice < 1<<60 {
				idleSlice *= 4
			}
			d := idleSlice
			if d > remaining {
				d = remaining
			}
			s.tick(d)
			continue
		}
		idleSlice = 0
		if s.cfg.TickOneIn > 1 && s.ch.Choose(s.cfg.TickOneIn, "tick?") == s.cfg.TickOneIn-1 {
			d := tickDurations[s.ch.Choose(len(tickDurations), "tick duration")]
			s.mu.Unlock()
			s.tick(d)
			continue
		}
		// last-run task first, so that choice 0 means "no context switch"
		if s.last != nil {
			for i, t := range cands {
				if t == s.last {
					copy(cands[1:i+1], cands[:i])
					cands[0] = t
					break
				}
			}
		}
		var pick *Task
		if s.cfg.PCT > 0 {
			if s.pctPoints == nil {
				s.pctPoints = map[int]bool{}
				for i := 0; i < s.cfg.PCT; i++ {
					s.pctPoints[1+s.ch.Choose(400, "pct change point")] = true
				}
			}
			for _, t := range cands {
				if pick == nil || t.prio > pick.prio || (t.prio == pick.prio && t.ID < pick.ID) {
					pick = t
				}
			}
			if s.pctPoints[s.step] {
				s.pctLow--
				pick.prio = s.pctLow // from now on this task runs only when nothing else can
			}
		} else if len(cands) == 1 {
			pick = cands[0]
		} else {
			extra := 0
			if cands[0] == s.last {
				extra = s.cfg.Sticky
			}
			c := s.ch.Choose(len(cands)+extra, "run")
			if c >= len(cands) {
				c = 0
			}
			pick = cands[c]
		}
		if pick != s.last {
			s.Switches++
		}
		s.last = pick
		if pick.kind == parkLock {
			s.acquire(pick)
		}
		pick.state = stRunning
		h := s.schedHash
		h ^= uint64(pick.ID + 1)
		h *= 1099511628211
		for i := 0; i < len(pick.site); i++ {
			h ^= uint64(pick.site[i])
			h *= 1099511628211
		}
		s.schedHash = h
		s.logLocked(-1, "run", fmt.Sprintf("t%d %s", pick.ID, pick.site))
		s.mu.Unlock()
		pick.wake <- struct{}{}
	}
	res.Steps = s.step
	res.SimTime = time.Since(s.start)
	for _, t := range s.tasks {
		if t.state != stFinished && !t.Daemon {
			res.Unfinish = append(res.Unfinish, t)
		}
		if t.Panic != nil {
			res.Panicked = append(res.Panicked, t)
		}
	}
	res.Hash = s.hash
	res.SchedHash = s.schedHash
	return res
}

// tick lets up to d of simulated time pass; it reports whether some task
// activity (and not the end of d) ended the wait.
func (s *Sim) tick(d time.Duration) bool {
	s.Ticks++
	tm := time.NewTimer(d)
	defer tm.Stop()
	woke := false
	select {
	case <-s.notify:
		woke = true
	case <-tm.C:
	}
	s.mu.Lock()
	s.logLocked(-1, "tick", fmt.Sprintf("now=%v", time.Since(s.start)))
	s.mu.Unlock()
	return woke
}

// Abort ends the simulation: parked tasks are made to exit (running their
// deferred calls), hooks become pass-throughs. Tasks blocked inside real
// channel operations cannot be ended; they are reported by the caller as a
// bubble deadlock.
func (s *Sim) Abort() {
	s.aborted.Store(true)
	for {
		synctest.Wait()
		s.mu.Lock()
		n := 0
		for _, t := range s.tasks {
			if t.state == stParked {
				t.state = stRunning
				n++
				close(t.wake)
			}
		}
		s.mu.Unlock()
		if n == 0 {
			return
		}
	}
}
