// Package verifhook is copied into the scratch copy of go-sse that every check
// builds. The instrumented go-sse sources call the functions in this file; with
// no simulator installed they are transparent pass-throughs, with one installed
// (Install) they park the calling goroutine until the seeded scheduler in
// sched.go releases it.
package verifhook

import (
	"sync"
	"sync/atomic"
	"unsafe"
)

var cur atomic.Pointer[Sim]

// Install makes s the active simulator (nil uninstalls).
func Install(s *Sim) { cur.Store(s) }

// Active returns the installed simulator, or nil.
func Active() *Sim { return cur.Load() }

func active() (*Sim, *Task) {
	s := cur.Load()
	if s == nil || s.aborted.Load() {
		return nil, nil
	}
	t := s.self()
	if t == nil {
		return nil, nil
	}
	return s, t
}

// Yield is a scheduling point before a synchronisation operation.
func Yield(site string) {
	if s, t := active(); s != nil {
		s.park(t, site, parkYield, nil, nil, "")
	}
}

// Blocking is called right before the original, blocking select is entered
// because no case was ready in the ordered try phase.
func Blocking(site string) {
	if s, t := active(); s != nil {
		s.noteBlocking(t, site)
	}
}

// After is the scheduling point after a select completed with case idx.
func After(site string, idx int) {
	if s, t := active(); s != nil {
		s.park(t, site, parkAfter, nil, nil, "")
	}
}

// Order returns the order in which the n communication cases of the select at
// site are tried.
func Order(site string, n int) []int {
	s, t := active()
	if s == nil {
		out := make([]int, n)
		for i := range out {
			out[i] = i
		}
		return out
	}
	return s.permutation(t, "select "+site, n)
}

// Send performs ch <- v with scheduling points around it.
func Send[T any](site string, ch chan<- T, v T) {
	s, t := active()
	if s == nil {
		ch <- v
		return
	}
	s.park(t, site, parkYield, nil, nil, "")
	s.noteBlocking(t, site)
	ch <- v
	s.park(t, site, parkAfter, nil, nil, "")
}

// Recv performs <-ch with scheduling points around it.
func Recv[T any](site string, ch <-chan T) T {
	v, _ := Recv2(site, ch)
	return v
}

// Recv2 performs v, ok := <-ch with scheduling points around it.
func Recv2[T any](site string, ch <-chan T) (T, bool) {
	s, t := active()
	if s == nil {
		v, ok := <-ch
		return v, ok
	}
	s.park(t, site, parkYield, nil, nil, "")
	s.noteBlocking(t, site)
	v, ok := <-ch
	s.park(t, site, parkAfter, nil, nil, "")
	return v, ok
}

// Close performs close(ch) with a scheduling point before it. A panic of the
// close itself (closed or nil channel) propagates unchanged.
func Close[T any](site string, ch chan<- T) {
	if s, t := active(); s != nil {
		s.park(t, site, parkYield, nil, nil, "")
	}
	close(ch)
}

// ZeroOf returns the zero value of ch's element type (a typed temporary for
// the generated select).
func ZeroOf[T any](ch <-chan T) T {
	var z T
	return z
}

// SendVal converts v to ch's element type (a typed temporary for the generated
// select).
func SendVal[T any](ch chan<- T, v T) T { return v }

// MapKeys returns the keys of m in the order in which the instrumented range
// statement visits them.
func MapKeys[K comparable, V any](site string, m map[K]V) []K {
	keys := make([]K, 0, len(m))
	for k := range m {
		keys = append(keys, k)
	}
	s, t := active()
	if s == nil {
		s = cur.Load() // deterministic base order also for non-task goroutines
	}
	if s == nil {
		return keys
	}
	sortKeys(s, keys, func(k K) any { return m[k] })
	if t == nil || len(keys) < 2 {
		return keys
	}
	perm := s.permutation(t, "maprange "+site, len(keys))
	out := make([]K, len(keys))
	for i, p := range perm {
		out[i] = keys[p]
	}
	return out
}

// Go starts f as a new simulated task (a plain goroutine without simulator).
func Go(site string, f func()) {
	s, t := active()
	if s == nil {
		go f()
		return
	}
	s.spawn(t, "go@"+site, f, true)
}

// BeforeLock is the scheduling point before mu.Lock / mu.RLock; the scheduler
// releases the task only when its model of mu says the lock is free, so the
// real Lock never blocks.
func BeforeLock(site string, mu any, kind string) {
	if s, t := active(); s != nil {
		s.park(t, site, parkLock, nil, mu, kind)
	}
}

// TryLock is mu.TryLock() / mu.TryRLock(): a scheduling point, then the scheduler's lock model
// decides; when it says free the real try (which then succeeds) is made and the model updated.
func TryLock(site string, mu any, kind string, try func() bool) bool {
	s, t := active()
	if s == nil {
		return try()
	}
	s.park(t, site, parkYield, nil, nil, "")
	return s.tryAcquire(t, mu, kind, try)
}

// AfterUnlock tells the scheduler's lock model that mu was released.
func AfterUnlock(mu any, kind string) {
	if s, t := active(); s != nil {
		s.unlock(t, mu, kind)
	}
}

// OnceDo is once.Do(f) treated as a critical section.
func OnceDo(site string, once *sync.Once, f func()) {
	s, t := active()
	if s == nil {
		once.Do(f)
		return
	}
	s.park(t, site, parkLock, nil, once, "w")
	defer s.unlock(t, once, "w")
	once.Do(f)
}

// MR records a read of map m by the calling task and returns m (the
// instrumenter wraps map operands of index expressions, len and range).
func MR[K comparable, V any](site string, m map[K]V) map[K]V {
	if s, t := active(); s != nil && m != nil {
		s.access(t, site, mapID(m), false, "map", m)
	}
	return m
}

// MW records a write (assignment to an element, delete) of map m.
func MW[K comparable, V any](site string, m map[K]V) map[K]V {
	if s, t := active(); s != nil && m != nil {
		s.access(t, site, mapID(m), true, "map", m)
	}
	return m
}

// FW records a write of the field (reached through a pointer) at address p.
func FW[T any](site string, p *T) {
	if s, t := active(); s != nil && p != nil {
		s.access(t, site, uintptr(unsafe.Pointer(p)), true, "field", p)
	}
}

func mapID[K comparable, V any](m map[K]V) uintptr {
	return uintptr(*(*unsafe.Pointer)(unsafe.Pointer(&m)))
}
