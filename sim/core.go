package sim

import (
	"fmt"
	"sort"
	"testing"
	"time"
)

// Violation of a property found in one run.
type Violation struct {
	Prop   string `json:"property"`
	Clause string `json:"clause"`
	Detail string `json:"detail"`
}

func (v Violation) String() string { return fmt.Sprintf("%s/%s: %s", v.Prop, v.Clause, v.Detail) }

// Outcome is what one simulated run reports.
type Outcome struct {
	Violations   []Violation
	Nontrivial   bool
	Key          uint64   // distinctness hash of the case (input, faults and schedule)
	States       []uint64 // abstract states visited
	Sched        uint64   // hash of the scheduling decisions (0: world without scheduler)
	Faults       map[string]int
	Probes       map[string]int
	SimTime      time.Duration
	Steps        int
	Inconclusive bool
	Sample       any
	Log          []string
	LogHash      uint64
}

func newOutcome() *Outcome {
	return &Outcome{Faults: map[string]int{}, Probes: map[string]int{}}
}

func (o *Outcome) violate(prop, clause, format string, a ...any) {
	o.Violations = append(o.Violations, Violation{Prop: prop, Clause: clause, Detail: fmt.Sprintf(format, a...)})
}

func (o *Outcome) fault(kind string) { o.Faults[kind]++ }
func (o *Outcome) probe(name string) { o.Probes[name]++ }
func (o *Outcome) logf(format string, a ...any) {
	if o.Log != nil {
		o.Log = append(o.Log, fmt.Sprintf(format, a...))
	}
}

// RunCtx is what a world gets for one run.
type RunCtx struct {
	T       *testing.T
	Ch      *Chooser
	Prop    string
	Tier    string
	KeepLog bool
}

// World is one simulated world (DESIGN.md 3).
type World struct {
	Name        string
	Level       string // evidence level
	Rule        string
	Real        []string
	Stub        []string
	Assumptions []string
	// MustProbes are probe names that have to be reached for the evidence to count.
	MustProbes []string
	Run        func(rc *RunCtx) *Outcome
}

// registry: property id → world
var registry = map[string]*World{}

func register(w *World, props ...string) {
	for _, p := range props {
		registry[p] = w
	}
}

func sortedKeys(m map[string]int) []string {
	ks := make([]string, 0, len(m))
	for k := range m {
		ks = append(ks, k)
	}
	sort.Strings(ks)
	return ks
}

type hasher uint64

func newHasher() hasher { return 14695981039346656037 }

func (h *hasher) bytes(b []byte) {
	x := uint64(*h)
	for _, c := range b {
		x ^= uint64(c)
		x *= 1099511628211
	}
	x ^= 0xff
	x *= 1099511628211
	*h = hasher(x)
}
func (h *hasher) str(s string) { h.bytes([]byte(s)) }
func (h *hasher) u64(v uint64) {
	x := uint64(*h)
	for i := 0; i < 8; i++ {
		x ^= v & 0xff
		x *= 1099511628211
		v >>= 8
	}
	*h = hasher(x)
}
func (h *hasher) int(v int) { h.u64(uint64(int64(v))) }
