package sim

import (
	"bytes"
	"errors"
	"fmt"
	"io"
	"strings"
	"time"

	sse "github.com/tmaxmax/go-sse"
)

// Encode world (DESIGN.md C15): messages built through the public API from
// generated call sequences, a simulated writer that accepts a chosen number of
// bytes of the k-th Write and then fails. Fault enumeration: every Write of
// the recorded fault-free encoding is failed in turn.

type recWriter struct {
	// during runs before each Write's bytes are looked at: whatever else the program does while this
	// Write is in progress (another goroutine encoding another message) must not change them
	during   func()
	writes   [][]byte
	failAt   int // index of the failing Write (-1: never)
	accept   int // bytes of the failing Write that are accepted
	err      error
	accepted []byte
	failed   bool
	after    int // Write calls after the failure
}

func (w *recWriter) Write(p []byte) (int, error) {
	if w.failed {
		w.after++
		return 0, w.err
	}
	if w.during != nil {
		w.during()
	}
	idx := len(w.writes)
	w.writes = append(w.writes, append([]byte(nil), p...))
	if idx == w.failAt {
		a := w.accept
		if a > len(p) {
			a = len(p)
		}
		w.accepted = append(w.accepted, p[:a]...)
		w.failed = true
		return a, w.err
	}
	w.accepted = append(w.accepted, p...)
	return len(p), nil
}

// Writers of other shapes: a destination may offer WriteByte and / or WriteString next to Write
// (bufio.Writer, bytes.Buffer, strings.Builder do); each such call is one call of the underlying
// recWriter, so the fault enumeration covers them like any Write. A failing WriteByte accepts nothing.
type recByteWriter struct{ *recWriter }

func (w recByteWriter) WriteByte(c byte) error {
	if len(w.writes) == w.failAt {
		w.accept = 0
	}
	_, err := w.Write([]byte{c})
	return err
}

type recStringWriter struct{ *recWriter }

func (w recStringWriter) WriteString(s string) (int, error) { return w.Write([]byte(s)) }

type recByteStringWriter struct {
	recByteWriter
}

func (w recByteStringWriter) WriteString(s string) (int, error) { return w.Write([]byte(s)) }

var writerShapes = []string{"Write only", "Write+WriteByte", "Write+WriteString", "Write+WriteByte+WriteString"}

func shapedWriter(w *recWriter, shape int) io.Writer {
	switch shape {
	case 1:
		return recByteWriter{w}
	case 2:
		return recStringWriter{w}
	case 3:
		return recByteStringWriter{recByteWriter{w}}
	}
	return w
}

var encStrings = []string{"x", "hello", "two\nlines", "cr\rlf", "crlf\r\nend", "\n", "\r\n\r\n", "trail\n", " lead", ":", "a:b", "id: 7", "data: y", "é€", "\xEF\xBB\xBFbom", "\x00", "", "  ", "retry: 5"}

type msgOp struct {
	Kind string `json:"op"`
	Arg  string `json:"arg"`
}

// sizedString: a value of a drawn length (every length up to 300, and lengths around 4 KiB and
// 64 KiB), so that any internal line or chunk buffer of the encoder is met at its exact size.
func sizedString(ch *Chooser) string {
	n := 0
	switch ch.Weighted([]int{8, 1, 1}, "value size class") {
	case 0:
		n = ch.Range(0, 300, "value length")
	case 1:
		n = ch.Range(4080, 4110, "value length around 4 KiB")
	case 2:
		n = ch.Range(65520, 65550, "value length around 64 KiB")
	}
	return strings.Repeat("k", n)
}

// genMessage builds a message from a generated sequence of public API calls.
func genMessage(ch *Chooser) (*sse.Message, []msgOp) {
	m := &sse.Message{}
	var ops []msgOp
	pick := func(pool []string, label string) string {
		if ch.Chance(1, 5, "sized "+label) {
			return sizedString(ch)
		}
		return pool[ch.Intn(len(pool), label)]
	}
	for i := 0; i < 8 && ch.Chance(3, 4, "more message ops"); i++ {
		switch ch.Weighted([]int{6, 2, 2, 2, 2}, "message op") {
		case 0:
			s := pick(encStrings, "data")
			if ch.Chance(1, 6, "variadic append") {
				// AppendData(a, b) is AppendData(a) followed by AppendData(b); no arguments append nothing
				s2 := pick(encStrings, "data")
				m.AppendData()
				m.AppendData(s, s2)
				ops = append(ops, msgOp{"AppendData", s}, msgOp{"AppendData", s2})
				break
			}
			m.AppendData(s)
			ops = append(ops, msgOp{"AppendData", s})
		case 1:
			s := pick(encStrings, "comment")
			if ch.Chance(1, 6, "variadic append") {
				s2 := pick(encStrings, "comment")
				m.AppendComment()
				m.AppendComment(s, s2)
				ops = append(ops, msgOp{"AppendComment", s}, msgOp{"AppendComment", s2})
				break
			}
			m.AppendComment(s)
			ops = append(ops, msgOp{"AppendComment", s})
		case 2:
			ids := []string{"1", "", "a b", "é", ":", " x", "id: y", "007"}
			s := pick(ids, "id")
			m.ID = sse.ID(s)
			ops = append(ops, msgOp{"ID", s})
		case 3:
			types := []string{"t", "", "message", " sp", "a:b", "data"}
			s := pick(types, "type")
			m.Type = sse.Type(s)
			ops = append(ops, msgOp{"Type", s})
		case 4:
			rs := []time.Duration{0, 1, 999 * time.Microsecond, time.Millisecond, 1500 * time.Microsecond, 42 * time.Second, -time.Second, 1<<63 - 1, 9223372036854 * time.Millisecond}
			d := rs[ch.Intn(len(rs), "retry")]
			m.Retry = d
			ops = append(ops, msgOp{"Retry", d.String()})
		}
	}
	return m, ops
}

func runEncodeWorld(rc *RunCtx) (out *Outcome) {
	o := newOutcome()
	out = o // also when a panic inside go-sse is recovered below
	ch := rc.Ch
	m, ops := genMessage(ch)
	shown := make([]msgOp, len(ops))
	for i, op := range ops {
		shown[i] = op
		if len(op.Arg) > 40 && strings.Trim(op.Arg, "k") == "" {
			shown[i].Arg = fmt.Sprintf("k x %d", len(op.Arg))
		}
	}
	desc := fmt.Sprintf("%+v", shown)
	if rc.KeepLog {
		o.Log = []string{"message built by " + desc}
	}
	defer func() {
		if p := recover(); p != nil {
			o.violate("C15", "panic", "message %s: panic %v", desc, p)
		}
		h := newHasher()
		h.str(desc)
		o.Key = uint64(h)
		o.LogHash = uint64(h)
		o.Sample = map[string]any{"ops": shown}
	}()

	// Some runs encode a second message while each Write of the first is in progress: what another
	// goroutine may do at that moment, played on one goroutine so that it is repeatable. Messages
	// share nothing, so this must change nothing.
	var during func()
	if ch.Chance(1, 5, "another message is encoded during every Write") {
		other, _ := genMessage(ch)
		other.AppendData("zz")
		other.ID = sse.ID("99")
		other.AppendComment("other")
		during = func() {
			_, _ = other.WriteTo(io.Discard)
			_ = other.String()
		}
		o.probe("another message encoded while a Write was in progress")
	}
	// fault-free encoding with its Write boundaries
	shape := ch.Weighted([]int{3, 1, 1, 1}, "writer shape")
	desc += " -> " + writerShapes[shape]
	base := &recWriter{failAt: -1, during: during}
	n, err := m.WriteTo(shapedWriter(base, shape))
	full := base.accepted
	if err != nil || int(n) != len(full) {
		o.violate("C15", "fault-free", "message %s: WriteTo on a healthy writer returned (%d, %v) for %d bytes", desc, n, err, len(full))
		return o
	}
	mt, merr := m.MarshalText()
	if merr != nil || !bytes.Equal(mt, full) || m.String() != string(full) {
		o.violate("C15", "identical-encodings", "message %s: WriteTo %q, MarshalText %q (%v), String %q", desc, full, mt, merr, m.String())
		return o
	}
	// results handed out earlier must stay intact while other messages are marshalled
	{
		keep := string(mt)
		other, _ := genMessage(ch)
		if ch.Chance(1, 2, "other message has data") {
			other.AppendData("another message " + strings.Repeat("#", ch.Range(0, 40, "other size")))
		}
		ob, _ := other.MarshalText()
		_ = other.String()
		if string(mt) != keep || string(mt) != string(full) {
			o.violate("C15", "encoding-not-stable", "message %s: the bytes returned by MarshalText changed from %q to %q after another message (%q) was marshalled", desc, keep, mt, ob)
			return o
		}
		mt2, _ := m.MarshalText()
		if !bytes.Equal(mt2, full) {
			o.violate("C15", "identical-encodings", "message %s: second MarshalText %q differs from WriteTo %q", desc, mt2, full)
			return o
		}
		o.probe("encoding re-checked after marshalling another message")
	}
	// a Clone is a message of its own: decoding into one, or appending to it, leaves the other alone
	{
		c1 := m.Clone()
		c2 := c1.Clone()
		if ch.Chance(1, 2, "clone decoded into") {
			_ = c1.UnmarshalText([]byte("id: other\ndata: decoded into the clone\ndata: second line\n\n"))
		} else {
			c1.AppendData("appended to the clone")
			c1.AppendComment("and a comment")
		}
		if got := c2.String(); got != string(full) {
			o.violate("C15", "clone-not-independent", "message %s: after its clone was reused, a second clone encodes as %q instead of %q", desc, got, full)
			return o
		}
		if got := m.String(); got != string(full) {
			o.violate("C15", "clone-not-independent", "message %s: after its clone was reused, the message itself encodes as %q instead of %q", desc, got, full)
			return o
		}
	}
	hasField := m.ID.IsSet() || m.Type.IsSet() || m.Retry.Milliseconds() > 0
	for _, op := range ops {
		if (op.Kind == "AppendData" || op.Kind == "AppendComment") && op.Arg != "" {
			hasField = true
		}
	}
	if !hasField && len(full) != 0 {
		o.violate("C15", "empty-message", "message %s has nothing to write but produced %q", desc, full)
	}
	if hasField && len(full) == 0 {
		o.violate("C15", "empty-message", "message %s has a field but produced nothing", desc)
	}
	if len(full) > 0 && !strings.Contains(string(ops2ids(ops)), "\x00") {
		var back sse.Message
		if ch.Chance(1, 4, "decode into a used message") {
			// "previous fields present on the Message will be overwritten"
			dirty, _ := genMessage(ch)
			dirty.AppendData("left over")
			dirty.ID, dirty.Type, dirty.Retry = sse.ID("old"), sse.Type("old"), time.Hour
			back = *dirty
			o.probe("decoded into a message that held other fields")
		}
		input := append([]byte(nil), full...) // the caller's buffer, reused after the call
		uerr := back.UnmarshalText(input)
		for i := range input {
			input[i] = 'x'
		}
		if uerr != nil {
			o.violate("C15", "round-trip", "message %s: UnmarshalText(MarshalText) failed: %v (wire %q)", desc, uerr, full)
		} else {
			again, _ := back.MarshalText()
			if !bytes.Equal(again, full) {
				o.violate("C15", "round-trip", "message %s: wire %q re-encodes to %q", desc, full, again)
			}
			if back.ID != m.ID || back.Type != m.Type || back.Retry.Milliseconds() != maxInt64(m.Retry.Milliseconds(), 0) {
				o.violate("C15", "round-trip", "message %s: fields after the round trip: ID %q/%v Type %q/%v Retry %v, want ID %q/%v Type %q/%v Retry %dms",
					desc, back.ID.String(), back.ID.IsSet(), back.Type.String(), back.Type.IsSet(), back.Retry, m.ID.String(), m.ID.IsSet(), m.Type.String(), m.Type.IsSet(), m.Retry.Milliseconds())
			}
		}
		o.probe("round trip checked")
	}

	// fault enumeration: every Write index x accepted-byte counts {0, 1, len-1, drawn}
	points := 0
	for k, wr := range base.writes {
		counts := map[int]bool{0: true}
		if len(wr) > 1 {
			counts[1] = true
			counts[len(wr)-1] = true
		}
		if len(wr) > 0 {
			counts[ch.Intn(len(wr), "accepted bytes")] = true
		}
		for a := range counts {
			points++
			injected := newInjected(fmt.Sprintf("write#%d after %d bytes", k, a))
			fw := &recWriter{failAt: k, accept: a, err: injected, during: during}
			n, err := m.WriteTo(shapedWriter(fw, shape))
			o.fault("writer fails at a Write call")
			where := fmt.Sprintf("message %s, Write #%d (%q) accepting %d bytes", desc, k, wr, a)
			if !errors.Is(err, injected) {
				o.violate("C15", "error-identity", "%s: WriteTo returned error %v", where, err)
			}
			if int(n) != len(fw.accepted) {
				o.violate("C15", "byte-count", "%s: WriteTo returned n=%d, the writer accepted %d bytes", where, n, len(fw.accepted))
			}
			if !bytes.HasPrefix(full, fw.accepted) {
				o.violate("C15", "prefix", "%s: accepted bytes %q are not a prefix of %q", where, fw.accepted, full)
			}
			if fw.after > 0 {
				o.violate("C15", "write-after-failure", "%s: %d Write calls after the failure", where, fw.after)
			}
			if len(o.Violations) > 0 {
				return o
			}
		}
	}
	o.Nontrivial = len(base.writes) >= 2
	sh := newHasher()
	sh.int(len(base.writes))
	o.States = append(o.States, uint64(sh))
	o.Probes["fail points enumerated"] += points
	return o
}

func ops2ids(ops []msgOp) string {
	var sb strings.Builder
	for _, op := range ops {
		if op.Kind == "ID" {
			sb.WriteString(op.Arg)
		}
	}
	return sb.String()
}

func maxInt64(a, b int64) int64 {
	if a > b {
		return a
	}
	return b
}

func init() {
	register(&World{
		Name: "encode", Level: "fault_enumeration",
		Rule: "each evaluation builds a message from a generated sequence of public API calls (AppendData / AppendComment incl. variadic and empty calls, with multi-line strings and values of every length up to 300 bytes and around 4 KiB and 64 KiB, ID, Type incl. set-but-empty, Retry incl. sub-millisecond, negative and maximal), a destination writer shape (Write only, with WriteByte and / or WriteString), records the fault-free encoding with its Write boundaries, and then fails EVERY call of it in turn after 0, 1, len-1 and a drawn number of accepted bytes; a fifth of the runs encode another message while each Write is in progress; the round trip also decodes into a Message that held other fields. " +
			"Non-trivial: the encoding has at least two Write calls; distinct = distinct call sequences.",
		Real:        []string{"sse.Message (AppendData, AppendComment, WriteTo, MarshalText, String, UnmarshalText)", "internal/parser.FieldParser"},
		Stub:        []string{"io.Writer that accepts a chosen number of bytes of the k-th Write and then fails with a unique error"},
		Assumptions: []string{"single caller; the simulator dimension is the failing writer only (stated in DESIGN.md)", "IDs without NUL for the round trip, as the property says"},
		MustProbes:  []string{"round trip checked", "fail points enumerated", "encoding re-checked after marshalling another message"},
		Run:         runEncodeWorld,
	}, "C15")
}
