package sim

import (
	"bufio"
	"context"
	"errors"
	"io"
	"net"
	"net/http"
	"net/http/httptest"
	"os"
	"strings"
	"sync"
	"testing"
	"time"
)

// TestConformance compares the behaviours simnet models (DESIGN.md 2.5) with
// real net/http over loopback. It is not a check: it is run by
// `./check conformance`, prints what it saw and can only warn.
func TestConformance(t *testing.T) {
	if os.Getenv("VERIF_CONFORMANCE") == "" {
		t.Skip("run through ./check conformance")
	}
	type result struct {
		name, detail string
		ok           bool
	}
	var results []result
	add := func(name string, ok bool, detail string) {
		results = append(results, result{name, detail, ok})
		if ok {
			t.Logf("agrees     %-62s %s", name, detail)
		} else {
			t.Logf("DISAGREES  %-62s %s", name, detail)
		}
	}

	// 1. response headers become visible at the first flush; status defaults to 200
	{
		release := make(chan struct{})
		srv := httptest.NewServer(http.HandlerFunc(func(w http.ResponseWriter, r *http.Request) {
			w.Header().Set("Content-Type", "text/event-stream")
			<-release
			w.(http.Flusher).Flush()
			<-r.Context().Done()
		}))
		got := make(chan *http.Response, 1)
		go func() {
			resp, err := http.Get(srv.URL)
			if err == nil {
				got <- resp
			}
		}()
		select {
		case <-got:
			add("headers are not visible before the first flush", false, "client got the response before any flush")
		case <-time.After(150 * time.Millisecond):
			close(release)
			select {
			case resp := <-got:
				add("headers become visible at the first flush, status defaults to 200", resp.StatusCode == 200 && resp.Header.Get("Content-Type") == "text/event-stream", resp.Status)
				resp.Body.Close()
			case <-time.After(2 * time.Second):
				add("headers become visible at the first flush", false, "no response 2s after the flush")
			}
		}
		srv.CloseClientConnections()
		srv.Close()
	}

	// 2. writes are buffered until Flush or handler return; handler return => clean EOF after the flushed bytes
	{
		srv := httptest.NewServer(http.HandlerFunc(func(w http.ResponseWriter, r *http.Request) {
			io.WriteString(w, "data: a\n\n")
			w.(http.Flusher).Flush()
			io.WriteString(w, "data: b\n\n") // not flushed explicitly
		}))
		resp, err := http.Get(srv.URL)
		if err != nil {
			add("handler return flushes the buffered bytes and ends the body with io.EOF", false, err.Error())
		} else {
			b, err := io.ReadAll(resp.Body)
			add("handler return flushes the buffered bytes and ends the body with io.EOF", err == nil && string(b) == "data: a\n\ndata: b\n\n", string(b))
			resp.Body.Close()
		}
		srv.Close()
	}

	// 3. a connection cut inside the body => the client's Read fails with a non-EOF error (io.ErrUnexpectedEOF for a
	//    chunked body), the server's request context is cancelled and its writes start failing
	{
		var mu sync.Mutex
		var writeErr error
		ctxCancelled := make(chan struct{})
		var conns []net.Conn
		srv := httptest.NewUnstartedServer(http.HandlerFunc(func(w http.ResponseWriter, r *http.Request) {
			io.WriteString(w, "data: a\n\n")
			w.(http.Flusher).Flush()
			<-r.Context().Done()
			close(ctxCancelled)
			for i := 0; i < 50; i++ {
				_, err := io.WriteString(w, strings.Repeat("x", 4096))
				if err == nil {
					err = http.NewResponseController(w).Flush()
				}
				if err != nil {
					mu.Lock()
					writeErr = err
					mu.Unlock()
					return
				}
			}
		}))
		srv.Config.ConnState = func(c net.Conn, s http.ConnState) {
			if s == http.StateActive {
				mu.Lock()
				conns = append(conns, c)
				mu.Unlock()
			}
		}
		srv.Start()
		resp, err := http.Get(srv.URL)
		if err != nil {
			add("cut inside the body", false, err.Error())
		} else {
			br := bufio.NewReader(resp.Body)
			line, _ := br.ReadString('\n')
			mu.Lock()
			for _, c := range conns {
				c.Close() // the cut
			}
			mu.Unlock()
			_, rerr := io.ReadAll(br)
			add("cut => client Read fails with a non-EOF error", rerr != nil && !errors.Is(rerr, io.EOF) && line == "data: a\n", errString(rerr))
			select {
			case <-ctxCancelled:
				add("cut => the server's request context is cancelled", true, "")
			case <-time.After(2 * time.Second):
				add("cut => the server's request context is cancelled", false, "not within 2s")
			}
			time.Sleep(100 * time.Millisecond)
			mu.Lock()
			add("cut => server writes/flushes fail", writeErr != nil, errString(writeErr))
			mu.Unlock()
			resp.Body.Close()
		}
		srv.Close()
	}

	// 4. cancelling the client's request context => pending Read returns the context's error; the server sees its context cancelled
	{
		srvCancelled := make(chan struct{})
		srv := httptest.NewServer(http.HandlerFunc(func(w http.ResponseWriter, r *http.Request) {
			io.WriteString(w, "data: a\n\n")
			w.(http.Flusher).Flush()
			<-r.Context().Done()
			close(srvCancelled)
		}))
		ctx, cancel := context.WithCancel(context.Background())
		req, _ := http.NewRequestWithContext(ctx, http.MethodGet, srv.URL, nil)
		resp, err := http.DefaultClient.Do(req)
		if err != nil {
			add("client context cancellation", false, err.Error())
		} else {
			buf := make([]byte, 64)
			resp.Body.Read(buf)
			time.AfterFunc(50*time.Millisecond, cancel)
			_, rerr := resp.Body.Read(buf)
			add("client cancel => pending Body.Read returns the context's error", errors.Is(rerr, context.Canceled), errString(rerr))
			select {
			case <-srvCancelled:
				add("client cancel => the server's request context is cancelled", true, "")
			case <-time.After(2 * time.Second):
				add("client cancel => the server's request context is cancelled", false, "not within 2s")
			}
			resp.Body.Close()
		}
		cancel()
		srv.Close()
	}

	// 5. Body.Close by the client => the server's request context is cancelled
	{
		srvCancelled := make(chan struct{})
		srv := httptest.NewServer(http.HandlerFunc(func(w http.ResponseWriter, r *http.Request) {
			io.WriteString(w, "data: a\n\n")
			w.(http.Flusher).Flush()
			<-r.Context().Done()
			close(srvCancelled)
		}))
		resp, err := http.Get(srv.URL)
		if err == nil {
			buf := make([]byte, 64)
			resp.Body.Read(buf)
			resp.Body.Close()
			select {
			case <-srvCancelled:
				add("Body.Close => the server's request context is cancelled", true, "")
			case <-time.After(2 * time.Second):
				add("Body.Close => the server's request context is cancelled", false, "not within 2s")
			}
		} else {
			add("Body.Close", false, err.Error())
		}
		srv.Close()
	}

	// 6. a handler that returns without writing anything => plain 200 without Content-Type
	{
		srv := httptest.NewServer(http.HandlerFunc(func(w http.ResponseWriter, r *http.Request) {}))
		resp, err := http.Get(srv.URL)
		if err == nil {
			b, _ := io.ReadAll(resp.Body)
			add("handler returning without writing => empty 200", resp.StatusCode == 200 && len(b) == 0 && !strings.HasPrefix(resp.Header.Get("Content-Type"), "text/event-stream"), resp.Status+" "+resp.Header.Get("Content-Type"))
			resp.Body.Close()
		}
		srv.Close()
	}

	// 7. net/http's ResponseWriter offers both Flush and FlushError
	{
		var both bool
		srv := httptest.NewServer(http.HandlerFunc(func(w http.ResponseWriter, r *http.Request) {
			_, f := w.(http.Flusher)
			_, fe := w.(interface{ FlushError() error })
			both = f && fe
		}))
		resp, err := http.Get(srv.URL)
		if err == nil {
			resp.Body.Close()
		}
		add("net/http's ResponseWriter has Flush and FlushError", both, "")
		srv.Close()
	}

	bad := 0
	for _, r := range results {
		if !r.ok {
			bad++
		}
	}
	if bad > 0 {
		t.Logf("WARNING: %d modelled behaviours disagree with real net/http on this toolchain (simnet may need an update; this is not a property violation)", bad)
	} else {
		t.Logf("all %d modelled behaviours agree with real net/http", len(results))
	}
}

func errString(err error) string {
	if err == nil {
		return "<nil>"
	}
	return err.Error()
}
