#!/bin/bash
# tools/sweep.sh "<seeds>" <seconds> [ids…]  — runs every check for several seeds and prints only what needs attention:
# violations, harness trouble, probes not reached, and violations of *other* properties seen on the way (a canary for
# false alarms of the check that owns them).
here=$(cd "$(dirname "$0")/.." && pwd)
seeds=${1:-"2 3 4"}; secs=${2:-60}; shift 2 || true
ids=${*:-"C01 C03 C04 C05 C06 C07 C08 C09 C10 C11 C12 C13 C15 C16 C17 C18 C20"}
for s in $seeds; do for p in $ids; do
  out=$(VERIF_SEED=$s VERIF_SECONDS=$secs VERIF_TIER=${VERIF_TIER:-quick} "$here/check" $p 2>&1); rc=$?
  runs=$(echo "$out" | grep "^$p:" | sed 's/ (.*//')
  if [ $rc -ne 0 ] || echo "$out" | grep -q "violations of other\|PROBE-NOT"; then
    echo "== seed $s $p rc=$rc $runs"; echo "$out" | grep -A8 "^violation\|VIOLATION\|violations of other\|PROBE-NOT\|driver:\|worker [0-9]" | cut -c1-500
  else echo "ok seed $s $runs"; fi
done; done
