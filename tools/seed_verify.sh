#!/bin/bash
# tools/seed_verify.sh <seed dir with patch.diff + demo_test.go> 
# Confirms in scratch copies of /repo that (a) the patch applies, compiles and passes go-sse's unedited suite,
# (b) the demonstration fails with the patch and passes without it. Prints one line per fact.
set -u
export GOFLAGS=-mod=mod GOPROXY=off GOSUMDB=off GOTOOLCHAIN=local
d=$1
with=$(mktemp -d /tmp/seedv-with-XXXX); without=$(mktemp -d /tmp/seedv-without-XXXX)
trap 'rm -rf "$with" "$without"' EXIT
rsync -a --exclude .git /repo/ "$with/"; rsync -a --exclude .git /repo/ "$without/"
(cd "$with" && git init -q . && git apply --whitespace=nowarn "$d/patch.diff") || { echo "PATCH does not apply"; exit 1; }
(cd "$with" && go build ./... ) || { echo "PATCH does not compile"; exit 1; }
suite=FAIL
for try in 1 2 3; do if (cd "$with" && go test -vet=off -count=1 -timeout 180s ./... >/tmp/seedv-suite.log 2>&1); then suite=PASS; break; fi; done
echo "suite with patch: $suite"; [ $suite = FAIL ] && tail -5 /tmp/seedv-suite.log
demo=$(ls "$d"/demo*_test.go 2>/dev/null | head -1)
if [ -z "$demo" ]; then echo "no demo test"; exit 0; fi
cp "$d"/demo*_test.go "$with/"; cp "$d"/demo*_test.go "$without/"
race=${SEED_RACE:+-race}
names=$(grep -ho "^func Test[A-Za-z0-9_]*" "$d"/demo*_test.go | sed 's/func //' | paste -sd'|')
for i in 1 2 3; do
 if (cd "$with" && go test $race -vet=off -count=1 -timeout 300s -run "^($names)\$" . >/tmp/seedv-demo-with.log 2>&1); then echo "demo with patch (run $i): PASS"; else echo "demo with patch (run $i): FAIL"; fi
done
for i in 1 2 3; do
 if (cd "$without" && go test $race -vet=off -count=1 -timeout 300s -run "^($names)\$" . >/tmp/seedv-demo-without.log 2>&1); then echo "demo without patch (run $i): PASS"; else echo "demo without patch (run $i): FAIL"; tail -5 /tmp/seedv-demo-without.log; fi
done
