#!/usr/bin/env python3
"""Regenerates /verif/MANIFEST.json from the table below (kept in one place so the file stays valid)."""
import json, os, subprocess

HOOK_NOTE = ("no hook is committed to /repo: every check copies /repo's working tree to a scratch directory, "
             "runs /verif/tools/instrument over the root package (yields before/after channel operations, simulator-ordered select "
             "try phases, ordered map ranges, lock hooks, go wrapper), adds /verif/sim/verifhook and builds the simulation binary "
             "against the copy with go1.26.8 (DESIGN.md 2.3)")

TB = ("trusted base: the go/ast rewriter (validated by ./check passthrough: go-sse's suite on the instrumented copy), testing/synctest "
      "(fake clock, quiescence), the reference models/oracles in /verif/sim, go1.26.8 instead of the repository's go 1.23 toolchain; "
      "sampling of schedules/faults, not enumeration")

CHECKS = {
 "C01": ("exploration", "4 C01", "deterministic simulation: simulated reader (chooser-sized chunks, EOF/injected error at any offset) x independent WHATWG reference interpreter, both entry points, every single cut point for short streams",
         "seeded exploration of byte streams x segmentations x endings x entry points (Read, Connection) against an independent reference interpreter that is blind to segmentation; minimised replay on violation. Sampling, so evidence not proof."),
 "C20": ("exploration", "4 C20", "simulated counting reader over endless generators and streams sized within 2 bytes of 4 KiB / 64 KiB / the configured limit, chooser-sized chunks; bytes pulled beyond the last completed event vs. the limit, delivered events vs. the reference interpreter",
         "seeded exploration of limits, entry points, buffer settings, sizes and chunkings; no panic, bounded read-ahead, never a truncated event, everything below the limit delivered."),
 "C03": ("exploration", "4 C03", "deterministic simulation: seeded scheduler over real Joe (instrumented copy, synctest bubble), Put-order witness + per-subscriber window oracle",
         "seeded search over interleavings of Publish/Subscribe/cancel/Shutdown (every select order, map order and task choice from one PRNG) with an exact oracle: each subscriber's Send sequence must be the topic-filtered contiguous slice of Joe's serialisation order from its acceptance point, reaching every message published before its cancellation."),
 "C04": ("exploration", "4 C04", "deterministic simulation: seeded scheduler over real Joe + real Finite/ValidReplayer, replay||live sequence vs Put-order witness",
         "seeded search over pre-histories, presented IDs and Subscribe/Publish interleavings with real replayers; the whole replayed-then-live Send sequence must equal the suffix of the Put order after the presented ID."),
 "C05": ("exploration", "4 C05", "deterministic whole-system simulation with fault injection: real Server+Session+Joe+replayer and real Client+Connection+parser joined by a simulated transport; cuts at any byte offset (abrupt / handler end), reconnects on the fake clock, seeded scheduler",
         "seeded search over publish timings, payloads, cut sequences and schedules; safety after every callback (received = published sequence from the first received event on) and bounded liveness (once faults stop the client catches up before the system goes idle), server survival (no panic)."),
 "C06": ("exploration", "4 C06", "deterministic simulation with fault injection: failing Send/Flush (optionally cancelling its own context), Replay errors, cancels and shutdowns racing under the seeded scheduler",
         "seeded search over schedules and fault plans; a panic in any task (Joe's goroutine included), a MessageWriter call after Subscribe returned, or a wrong Subscribe result is a violation."),
 "C07": ("exploration", "4 C07", "deterministic simulation: 1-4 Shutdown calls (live/expired/expiring contexts on the fake clock) racing everything else; bounded liveness = all tasks finish once nothing is runnable",
         "seeded search over schedules; safety on return values of Shutdown/Publish/Subscribe and bounded liveness (no task left blocked when the system is idle after Shutdown; step-cap hits are inconclusive, never violations)."),
 "C08": ("exploration", "4 C08", "simulated histories (Put valid/invalid, Replay with every ID class, failing Send/Flush) against a bounded-FIFO reference model",
         "seeded exploration of operation histories and capacities in lockstep with a slice-based model; thin simulator dimension (a failing subscriber inside Replay), stated as such in DESIGN.md."),
 "C09": ("exploration", "4 C09", "simulated clock behind ValidReplayer.Now + histories of Put/Replay/GC/advance against an expiring-FIFO reference model",
         "seeded exploration of histories, TTL/GCInterval settings and clock advances (0, <TTL, =TTL, >TTL) in lockstep with a model on the world's clock."),
 "C10": ("exploration", "4 C10", "deterministic simulation with fault injection: scripted transport (dial failure / rejected response / stream cut cleanly, with an error or mid-event) under the seeded scheduler; headers and body of every attempt vs. the attempt history",
         "seeded search over attempt histories and request body kinds; every attempt's Last-Event-ID must equal the ID of the last event the reference interpreter says was dispatched, bodies must be re-obtained or Connect must end with ErrNoGetBody/GetBody's error."),
 "C11": ("exploration", "4 C11", "deterministic simulation with fault injection: stream endings of every class, read errors (injected, io.ErrUnexpectedEOF, net.OpError), cancellation at a chosen attempt / byte offset / simulated instant, validator verdicts, retry limits",
         "seeded search; Connect's result is classified against the run's history: never nil, the context's error iff cancelled, permanent failures at once, otherwise only when the budget is exhausted and with the last attempt's own error."),
 "C12": ("exploration", "4 C12", "deterministic simulation on the fake clock (testing/synctest): real back-off timers and jitter PRNG, OnRetry values and attempt instants vs. a reference recurrence",
         "seeded search over Backoff settings and attempt histories on simulated time (minute-long waits cost microseconds); waits, counts, resets, server retry overrides and MaxElapsedTime are compared with a reference recurrence written from the field documentation."),
 "C13": ("exploration", "4 C13", "deterministic simulation: subscriber tasks add/remove callbacks while the Connection dispatches chunk-by-chunk under the seeded scheduler (lock hooks); must / may / must-not sets per (callback, event) + lockset data-race check",
         "seeded search over subscription histories and interleavings with dispatch: routing, at-most-once, order, never-after-unsubscribe; data-race freedom is decided by the Eraser lockset discipline the simulator runs over instrumented map accesses and pointer-field writes with its own lock model (DESIGN.md 11), not by the Go race detector."),
 "C15": ("fault_enumeration", "4 C15", "fault enumeration with a simulated writer: the fault-free encoding's Write calls are recorded, then every Write is failed in turn after 0 / 1 / len-1 / a drawn number of accepted bytes; fault-free round trip and encoding identity on the same messages",
         "for each generated message the set of failure points (every Write call x accepted-byte counts) is enumerated completely; messages themselves are sampled from generated public-API call sequences. Thin simulator dimension (a failing writer), stated as such."),
 "C16": ("fault_enumeration", "4 C16", "fault enumeration with a recording, fault-injecting http.ResponseWriter of every shape: each position of the fault-free Write/Flush call log is failed in turn; ServeHTTP against a recording Provider",
         "for each generated Send/Flush sequence every failure position of the writer's call log is enumerated; sequences, messages, writer shapes, header values and OnSession results are sampled. Thin simulator dimension, stated as such."),
 "C17": ("exploration", "4 C17", "deterministic simulation with fault injection: subscriber failures, Put/Replay errors and panics at chosen calls; C03 oracle for the healthy subscribers",
         "seeded search over schedules and fault plans with at least one healthy subscriber; healthy subscribers must still get their exact window, Put errors must be what Publish returns, nothing may reach the replayer after it panicked."),
 "C18": ("exploration", "4 C18", "simulated histories + reflective reachability walk from the replayer value compared with the model's live set",
         "seeded exploration of Put/Replay/GC/clock histories; after every operation (finite) / collection (valid) every *Message reachable from the replayer must be in the model's live set."),
}

NA = {
 "C02": "pure function of its input (Message -> bytes -> events): no schedule, clock, fault or interleaving for a simulator to decide (DESIGN.md 5)",
 "C14": "pure constructors/decoders over inputs: no I/O, time or concurrency (DESIGN.md 5)",
 "C19": "sequential call-sequence property on values; 'interleavings' there are orders of calls by one caller, not concurrency (DESIGN.md 5)",
}
PENDING = {p: "check not built yet in this session (work in progress, DESIGN.md 4)" for p in ["C05","C10","C11","C12","C13","C15","C16","C20"]}

def main():
    checks = []
    for pid, (level, ref, technique, text) in sorted(CHECKS.items()):
        PENDING.pop(pid, None)
        checks.append({
            "property_id": pid,
            "quick_cmd": f"VERIF_TIER=quick ./check {pid}",
            "thorough_cmd": f"VERIF_TIER=thorough ./check {pid}",
            "evidence_file": f"/verif/evidence/{pid}.json",
            "replay_cmd_template": "./check replay {path}",
            "engine": "sim",
            "level_claimed": {"category": level, "text": text, "design_ref": "DESIGN.md section " + ref},
            "level_note": TB,
            "technique": technique,
        })
    na = [{"property_id": k, "reason": v} for k, v in sorted({**NA, **PENDING}.items())]
    m = {
        "version": 1,
        "setup_cmd": "./setup",
        "hooks": {"guard": "verif", "enable": HOOK_NOTE,
                  "baseline_off_cmd": "cd /repo && go test -json -vet=off -count=1 -timeout 25m ./...",
                  "source_commits": [], "add_only": True},
        "engines": [{"name": "sim", "path": "/verif/sim (+ /verif/tools/instrument, /verif/tools/driver)",
                     "serves_properties": sorted(CHECKS), "kind_free_text": "deterministic simulation with fault injection: seeded scheduler over an instrumented scratch copy inside testing/synctest bubbles, simulated readers/writers/transport/clock, reference-model oracles, trace shrinking and replay files"}],
        "checks": checks,
        "not_applicable": na,
        "notes": "exit 0 held / 1 VIOLATION line + replay file / 2 harness trouble. VERIF_SEED and VERIF_TIER are honoured. ./check determinism, ./check passthrough and ./selftest are the self-tests of DESIGN.md section 7. Fixed defects are listed in known_findings.json (status fixed: suppress nothing).",
    }
    json.dump(m, open("/verif/MANIFEST.json", "w"), indent=1)
    print("MANIFEST.json:", len(checks), "checks,", len(na), "not applicable/pending")

main()
