#!/bin/bash
# tools/seed_adopt.sh <ID> <name> "<what>"  — verify /tmp/seed-<ID>, copy to /verif/seeded/<name>, write meta.json
set -u
id=$1; name=$2; what=$3
res=$(/verif/tools/seed_verify.sh /tmp/seed-$id | sort | uniq -c)
echo "$res"
if echo "$res" | grep -q "demo with patch.*PASS" && ! echo "$res" | grep -q "demo with patch.*FAIL"; then
  echo "demo passes with the patch: trying again under the race detector"
  res=$(SEED_RACE=1 /verif/tools/seed_verify.sh /tmp/seed-$id | sort | uniq -c | sed 's/(run/(-race run/')
  echo "$res"
fi
if ! echo "$res" | grep -q "suite with patch: PASS"; then echo "NOT ADOPTED: suite fails"; exit 1; fi
if echo "$res" | grep -q "demo with patch.*PASS" && ! echo "$res" | grep -q "demo with patch.*FAIL"; then echo "NOT ADOPTED: demo does not fail with patch"; exit 1; fi
if echo "$res" | grep -q "demo without patch.*FAIL"; then echo "NOT ADOPTED: demo fails without patch"; exit 1; fi
mkdir -p /verif/seeded/$name
cp /tmp/seed-$id/patch.diff /tmp/seed-$id/NOTES.md /verif/seeded/$name/ 2>/dev/null
cp /tmp/seed-$id/demo*_test.go /verif/seeded/$name/ 2>/dev/null
python3 - "$id" "$name" "$what" "$res" <<'PY'
import json,sys
id,name,what,res=sys.argv[1:5]
json.dump({"property":id[:3],"kind":"seeded","origin":"independent sub-agent given only the property text and a scratch worktree","what":what,
 "confirmed":"tools/seed_verify.sh in scratch copies of /repo: patch applies and compiles, go-sse's unedited suite passes, demonstration fails with the patch (3 runs) and passes without it (3 runs)","verify_output":res.splitlines()},open(f"/verif/seeded/{name}/meta.json","w"),indent=1)
PY
git -C /repo worktree remove --force /tmp/wt-$id 2>/dev/null; rm -rf /tmp/seed-$id /tmp/agent-prompt-$id.txt
echo "adopted $name"
