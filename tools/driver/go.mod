module verif/driver

go 1.26
