// Command driver is the engine behind /verif/check: it copies /repo's working
// tree to a scratch directory, instruments the copy, builds the simulation
// binary against it with go1.26.8, runs worker processes, merges their
// results into /verif/evidence/<id>.json and sets the exit status
// (0 held, 1 violation, 2 harness trouble).
package main

import (
	"bytes"
	"encoding/json"
	"fmt"
	"io"
	"io/fs"
	"os"
	"os/exec"
	"path/filepath"
	"sort"
	"strconv"
	"strings"
	"sync"
	"time"
)

var repoDir = func() string {
	if d := os.Getenv("VERIF_REPO"); d != "" {
		return d // self-test only: a scratch copy of /repo with a mutant applied
	}
	return "/repo"
}()

// verifDir is /verif, or the snapshot of it a background run (vp run) works in.
var verifDir = func() string {
	if d := os.Getenv("VERIF_DIR"); d != "" {
		return d
	}
	return "/verif"
}()

const (
	goRoot   = "/opt/veriftools/go1.26.8"
	hookPath = "github.com/tmaxmax/go-sse/verifhook"
)

func die(code int, format string, a ...any) {
	fmt.Fprintf(os.Stderr, "driver: "+format+"\n", a...)
	cleanup()
	os.Exit(code)
}

var scratch string

func cleanup() {
	if scratch != "" && os.Getenv("VERIF_KEEP_SCRATCH") == "" {
		os.RemoveAll(scratch)
	}
}

func goEnv() []string {
	env := []string{}
	for _, e := range os.Environ() {
		k := strings.SplitN(e, "=", 2)[0]
		switch k {
		case "GOFLAGS", "GOPROXY", "GOSUMDB", "GOTOOLCHAIN", "PATH", "GOROOT", "GO111MODULE", "GOWORK":
			continue
		}
		env = append(env, e)
	}
	env = append(env,
		"GOFLAGS=-mod=mod", "GOPROXY=off", "GOSUMDB=off", "GOTOOLCHAIN=local", "GOWORK=off",
		"PATH="+goRoot+"/bin:"+os.Getenv("PATH"),
	)
	return env
}

func runCmd(dir string, env []string, name string, args ...string) (string, error) {
	cmd := exec.Command(name, args...)
	cmd.Dir = dir
	cmd.Env = env
	var out bytes.Buffer
	cmd.Stdout = &out
	cmd.Stderr = &out
	err := cmd.Run()
	return out.String(), err
}

func copyTree(src, dst string, skip func(rel string, d fs.DirEntry) bool) error {
	return filepath.WalkDir(src, func(p string, d fs.DirEntry, err error) error {
		if err != nil {
			return err
		}
		rel, _ := filepath.Rel(src, p)
		if rel != "." && skip != nil && skip(rel, d) {
			if d.IsDir() {
				return filepath.SkipDir
			}
			return nil
		}
		target := filepath.Join(dst, rel)
		if d.IsDir() {
			return os.MkdirAll(target, 0o755)
		}
		if !d.Type().IsRegular() {
			return nil
		}
		in, err := os.Open(p)
		if err != nil {
			return err
		}
		defer in.Close()
		out, err := os.Create(target)
		if err != nil {
			return err
		}
		if _, err := io.Copy(out, in); err != nil {
			out.Close()
			return err
		}
		return out.Close()
	})
}

// build prepares the scratch tree and returns the path of the simulation binary.
func build(race bool) string {
	var err error
	base := os.Getenv("VERIF_SCRATCH_BASE")
	if base == "" {
		base = os.TempDir()
	}
	scratch, err = os.MkdirTemp(base, "verif-scratch-")
	if err != nil {
		die(2, "mkdtemp: %v", err)
	}
	env := goEnv()
	gobin := goRoot + "/bin/go"

	// 1. copy of /repo's working tree (never .git)
	if err := copyTree(repoDir, filepath.Join(scratch, "repo"), func(rel string, d fs.DirEntry) bool {
		return rel == ".git" || strings.HasPrefix(rel, "cmd")
	}); err != nil {
		die(2, "copy repo: %v", err)
	}
	// 2. verifhook package into the copy
	if err := copyTree(filepath.Join(verifDir, "sim", "verifhook"), filepath.Join(scratch, "repo", "verifhook"), nil); err != nil {
		die(2, "copy verifhook: %v", err)
	}
	// 3. instrument
	instr := filepath.Join(scratch, "instrument")
	if out, err := runCmd(filepath.Join(verifDir, "tools", "instrument"), env, gobin, "build", "-o", instr, "."); err != nil {
		die(2, "build instrumenter: %v\n%s", err, out)
	}
	out, err := runCmd(filepath.Join(scratch, "repo"), env, instr, "-dir", filepath.Join(scratch, "repo"), "-hook", hookPath)
	if err != nil {
		die(2, "instrument: %v\n%s", err, out)
	}
	if os.Getenv("VERIF_VERBOSE") != "" {
		fmt.Print(out)
	}
	if strings.Contains(out, "WARNING") {
		fmt.Print(out)
	}
	// 4. harness sources
	simSrc := filepath.Join(verifDir, "sim")
	simDst := filepath.Join(scratch, "sim")
	if err := copyTree(simSrc, simDst, func(rel string, d fs.DirEntry) bool {
		return d.IsDir() && rel == "verifhook"
	}); err != nil {
		die(2, "copy sim: %v", err)
	}
	gomod := "module verif/sim\n\ngo 1.26\n\nrequire github.com/tmaxmax/go-sse v0.0.0\n\nreplace github.com/tmaxmax/go-sse => ../repo\n"
	if err := os.WriteFile(filepath.Join(simDst, "go.mod"), []byte(gomod), 0o644); err != nil {
		die(2, "write go.mod: %v", err)
	}
	_ = os.WriteFile(filepath.Join(simDst, "go.sum"), nil, 0o644)
	// 5. build
	bin := filepath.Join(scratch, "sim.test")
	args := []string{"test", "-c", "-trimpath", "-vet=off", "-o", bin}
	if race {
		args = append(args, "-race")
	}
	args = append(args, ".")
	if out, err := runCmd(simDst, env, gobin, args...); err != nil {
		die(2, "build simulation binary: %v\n%s", err, out)
	}
	return bin
}

type found struct {
	Property    string     `json:"property"`
	Clause      string     `json:"clause"`
	Detail      string     `json:"detail"`
	World       string     `json:"world"`
	Seed        uint64     `json:"seed"`
	RunIndex    uint64     `json:"run_index"`
	Trace       [][]uint32 `json:"trace"`
	OrigLen     int        `json:"original_trace_len"`
	ShrinkTests int        `json:"shrink_tests"`
	Log         []string   `json:"log"`
	LogHash     string     `json:"log_hash"`
	Case        any        `json:"case,omitempty"`
	Hang        bool       `json:"hang,omitempty"`
	Sequence    bool       `json:"sequence,omitempty"`
	SeqWorker   int        `json:"sequence_worker,omitempty"`
	SeqWorkers  int        `json:"sequence_workers,omitempty"`
	SeqRuns     int        `json:"sequence_runs,omitempty"`
}

type workerResult struct {
	Property      string            `json:"property"`
	Seed          uint64            `json:"seed"`
	Worker        int               `json:"worker"`
	Evaluations   int               `json:"evaluations"`
	Nontrivial    int               `json:"nontrivial"`
	Keys          []uint64          `json:"keys"`
	KeysSaturated bool              `json:"keys_saturated"`
	States        []uint64          `json:"states"`
	Scheds        []uint64          `json:"scheds"`
	Faults        map[string]int    `json:"faults"`
	Probes        map[string]int    `json:"probes"`
	SimTimeS      float64           `json:"sim_time_s"`
	Steps         int64             `json:"steps"`
	Inconclusive  int               `json:"inconclusive"`
	Samples       []any             `json:"samples"`
	OtherProps    map[string]int    `json:"other_property_violations"`
	OtherSamples  map[string]string `json:"other_property_samples"`
	Known         map[string]int    `json:"known_findings"`
	Found         *found            `json:"found,omitempty"`
	WallS         float64           `json:"wall_s"`
}

type worldInfo struct {
	Name        string   `json:"name"`
	Level       string   `json:"level"`
	Rule        string   `json:"rule"`
	Real        []string `json:"real"`
	Stub        []string `json:"stub"`
	Assumptions []string `json:"assumptions"`
	MustProbes  []string `json:"must_probes"`
}

func budget(prop, tier string) (seconds int, shrink int) {
	if v := os.Getenv("VERIF_SECONDS"); v != "" {
		n, _ := strconv.Atoi(v)
		return n, 60
	}
	if tier == "thorough" {
		return 420, 300
	}
	return 10, 45
}

func workers() int {
	if v := os.Getenv("VERIF_WORKERS"); v != "" {
		if n, err := strconv.Atoi(v); err == nil && n > 0 {
			return n
		}
	}
	return 16
}

func seed() uint64 {
	if v := os.Getenv("VERIF_SEED"); v != "" {
		if n, err := strconv.ParseUint(v, 10, 64); err == nil {
			return n
		}
		if n, err := strconv.ParseInt(v, 10, 64); err == nil {
			return uint64(n)
		}
	}
	return 1
}

func tier() string {
	if t := os.Getenv("VERIF_TIER"); t == "thorough" || t == "quick" {
		return t
	}
	return "quick"
}

func runWorker(bin string, env []string, extra ...string) (string, error) {
	cmd := exec.Command(bin, "-test.run", "^TestWorker$", "-test.timeout", "0", "-test.count", "1")
	cmd.Env = append(append([]string{}, env...), extra...)
	var out bytes.Buffer
	cmd.Stdout = &out
	cmd.Stderr = &out
	err := cmd.Run()
	return out.String(), err
}

func check(prop, tr string) int {
	start := time.Now()
	race := os.Getenv("VERIF_RACE") != ""
	bin := build(race)
	defer cleanup()
	buildS := time.Since(start).Seconds()
	sd := seed()
	nw := workers()
	secs, shrinkS := budget(prop, tr)
	fmt.Printf("check %s tier=%s VERIF_SEED=%d workers=%d search=%ds build=%.1fs\n", prop, tr, sd, nw, secs, buildS)

	// world info
	infoPath := filepath.Join(scratch, "info.json")
	if out, err := runWorker(bin, os.Environ(), "VERIF_PROP="+prop, "VERIF_INFO="+infoPath); err != nil {
		fmt.Print(out)
		die(2, "world info: %v", err)
	}
	var wi worldInfo
	if b, err := os.ReadFile(infoPath); err != nil || json.Unmarshal(b, &wi) != nil {
		die(2, "world info unreadable")
	}

	results := make([]*workerResult, nw)
	errs := make([]string, nw)
	var wg sync.WaitGroup
	for w := 0; w < nw; w++ {
		wg.Add(1)
		go func(w int) {
			defer wg.Done()
			outPath := filepath.Join(scratch, fmt.Sprintf("w%d.json", w))
			// watchdog: search + shrink + slack
			done := make(chan struct{})
			var out string
			var err error
			go func() {
				out, err = runWorker(bin, os.Environ(),
					"VERIF_PROP="+prop, "VERIF_TIER="+tr,
					"VERIF_SEED="+strconv.FormatUint(sd, 10),
					"VERIF_WORKER="+strconv.Itoa(w), "VERIF_WORKERS="+strconv.Itoa(nw),
					"VERIF_SECONDS="+strconv.Itoa(secs), "VERIF_SHRINK_SECONDS="+strconv.Itoa(shrinkS),
					"VERIF_KNOWN="+filepath.Join(verifDir, "known_findings.json"),
					"VERIF_OUT="+outPath, "GOMAXPROCS=2")
				close(done)
			}()
			select {
			case <-done:
			case <-time.After(time.Duration(secs+shrinkS+120) * time.Second):
				errs[w] = "watchdog: worker did not finish"
				return
			}
			if err != nil {
				errs[w] = fmt.Sprintf("worker failed: %v\n%s", err, tail(out, 60))
				return
			}
			b, rerr := os.ReadFile(outPath)
			if rerr != nil {
				errs[w] = fmt.Sprintf("no result: %v\n%s", rerr, tail(out, 60))
				return
			}
			var r workerResult
			if jerr := json.Unmarshal(b, &r); jerr != nil {
				errs[w] = "bad result json: " + jerr.Error()
				return
			}
			results[w] = &r
		}(w)
	}
	wg.Wait()
	for w, e := range errs {
		if e != "" {
			fmt.Fprintf(os.Stderr, "worker %d: %s\n", w, e)
		}
	}
	for _, e := range errs {
		if e != "" {
			die(2, "harness trouble (not a violation)")
		}
	}

	// merge
	keys := map[uint64]struct{}{}
	states := map[uint64]struct{}{}
	scheds := map[uint64]struct{}{}
	faults := map[string]int{}
	probes := map[string]int{}
	other := map[string]int{}
	otherSamples := map[string]string{}
	known := map[string]int{}
	var samples []any
	evals, nontriv, inconcl := 0, 0, 0
	var steps int64
	var simS float64
	saturated := false
	var first *found
	for _, r := range results {
		evals += r.Evaluations
		nontriv += r.Nontrivial
		inconcl += r.Inconclusive
		simS += r.SimTimeS
		steps += r.Steps
		saturated = saturated || r.KeysSaturated
		for _, k := range r.Keys {
			keys[k] = struct{}{}
		}
		for _, k := range r.States {
			states[k] = struct{}{}
		}
		for _, k := range r.Scheds {
			scheds[k] = struct{}{}
		}
		for k, v := range r.Faults {
			faults[k] += v
		}
		for k, v := range r.Probes {
			probes[k] += v
		}
		for k, v := range r.OtherProps {
			other[k] += v
		}
		for k, v := range r.OtherSamples {
			if _, ok := otherSamples[k]; !ok {
				otherSamples[k] = v
			}
		}
		for k, v := range r.Known {
			known[k] += v
		}
		if len(samples) < 3 {
			samples = append(samples, r.Samples...)
		}
		if r.Found != nil && (first == nil || r.Found.RunIndex < first.RunIndex) {
			first = r.Found
		}
	}
	if len(samples) > 3 {
		samples = samples[:3]
	}
	wall := time.Since(start).Seconds()
	var notReached []string
	for _, p := range wi.MustProbes {
		if probes[p] == 0 {
			notReached = append(notReached, p)
		}
	}
	violations := 0
	replayPath := ""
	replayNote := ""
	if first != nil {
		violations = 1
		_ = os.MkdirAll(filepath.Join(verifDir, "replays"), 0o755)
		replayPath = filepath.Join(verifDir, "replays", fmt.Sprintf("%s-%d-%d.json", prop, sd, first.RunIndex))
		b, _ := json.MarshalIndent(first, "", " ")
		if err := os.WriteFile(replayPath, b, 0o644); err != nil {
			die(2, "write replay: %v", err)
		}
		// the replay file must reproduce in a fresh process
		if ok, _ := replayOnce(bin, prop, tr, replayPath); !ok && first.Hang {
			die(2, "a run exceeded the wall-clock guard but did not hang again in a fresh process: machine trouble, not a violation")
		} else if !ok {
			first.Sequence = true
			first.SeqWorker = int(first.RunIndex % uint64(nw))
			first.SeqWorkers = nw
			first.SeqRuns = int(first.RunIndex/uint64(nw)) + 1
			b, _ := json.MarshalIndent(first, "", " ")
			_ = os.WriteFile(replayPath, b, 0o644)
			if ok, _ := replayOnce(bin, prop, tr, replayPath); ok {
				replayNote = fmt.Sprintf("the minimised trace alone does not reproduce in a fresh process: the violation depends on state left behind by earlier runs of the same process; the replay file re-executes runs 0..%d of worker %d", first.SeqRuns-1, first.SeqWorker)
			} else {
				replayNote = "WARNING: the violation did not reproduce in a fresh process, neither from the minimised trace nor from the worker's run sequence"
			}
		}
	}
	cov := map[string]any{
		"evaluations":               evals,
		"distinct_nontrivial":       len(keys),
		"rule":                      wi.Rule,
		"samples":                   samples,
		"nontrivial_evaluations":    nontriv,
		"distinct_keys_saturated":   saturated,
		"distinct_abstract_states":  len(states),
		"distinct_schedules":        len(scheds),
		"runs_per_hour":             int(float64(evals) / maxf(wall-buildS, 0.001) * 3600),
		"seeds_per_hour":            int(3600 / maxf(wall, 0.001)),
		"simulated_time_s":          simS,
		"scheduler_steps":           steps,
		"faults_injected":           faults,
		"probes":                    probes,
		"probes_not_reached":        notReached,
		"inconclusive_runs":         inconcl,
		"other_property_violations": other,
		"known_finding_hits":        known,
		"world":                     wi.Name,
		"real_components":           wi.Real,
		"stub_components":           wi.Stub,
		"workers":                   nw,
		"search_seconds_per_worker": secs,
		"build_s":                   buildS,
	}
	if first != nil {
		cov["violation"] = map[string]any{"clause": first.Clause, "detail": first.Detail, "replay": replayPath, "trace_len": traceLen(first.Trace), "original_trace_len": first.OrigLen}
	}
	ev := map[string]any{
		"property_id": prop,
		"tier":        tr,
		"seed":        sd,
		"level":       wi.Level,
		"coverage":    cov,
		"assumptions": wi.Assumptions,
		"wall_s":      wall,
		"violations":  violations,
	}
	evDir := filepath.Join(verifDir, "evidence")
	if os.Getenv("VERIF_REPO") != "" {
		evDir = scratch // self-test against a mutated copy: never touches the evidence of /repo
	}
	_ = os.MkdirAll(evDir, 0o755)
	b, _ := json.MarshalIndent(ev, "", " ")
	if err := os.WriteFile(filepath.Join(evDir, prop+".json"), b, 0o644); err != nil {
		die(2, "write evidence: %v", err)
	}

	fmt.Printf("%s: %d runs (%d non-trivial, %d distinct, %d abstract states, %d inconclusive) in %.1fs; sim time %.1fs\n", prop, evals, nontriv, len(keys), len(states), inconcl, wall, simS)
	printMap("faults", faults)
	printMap("probes", probes)
	if len(other) > 0 {
		printMap("violations of other properties seen (decided by their own checks)", other)
		for k, v := range otherSamples {
			if len(v) > 400 {
				v = v[:400]
			}
			fmt.Printf("      e.g. %s/%s\n", k, v)
		}
	}
	ks := make([]string, 0, len(known))
	for k := range known {
		ks = append(ks, k)
	}
	sort.Strings(ks)
	for _, k := range ks {
		fmt.Printf("KNOWN-FINDING: property=%s %s (%d runs)\n", prop, k, known[k])
	}
	if first != nil {
		fmt.Printf("violation: %s/%s: %s\n", first.Property, first.Clause, first.Detail)
		nz := 0
		for _, st := range first.Trace {
			for _, v := range st {
				if v != 0 {
					nz++
				}
			}
		}
		fmt.Printf("minimised trace: %d choices, %d of them non-zero (from %d choices, %d shrink runs); streams: generation %d, scheduling %d, select/map orders %d, I/O chunking %d\n",
			traceLen(first.Trace), nz, first.OrigLen, first.ShrinkTests, streamLen(first.Trace, 0), streamLen(first.Trace, 1), streamLen(first.Trace, 2), streamLen(first.Trace, 3))
		if replayNote != "" {
			fmt.Println(replayNote)
		}
		fmt.Printf("VIOLATION property=%s replay=%s\n", prop, replayPath)
		return 1
	}
	if len(notReached) > 0 {
		fmt.Printf("PROBE-NOT-REACHED: %s\n", strings.Join(notReached, "; "))
		if tr == "thorough" {
			die(2, "a rare condition the property depends on was never reached: evidence does not count")
		}
	}
	if evals == 0 {
		die(2, "no run was executed")
	}
	fmt.Printf("OK property=%s held on everything explored\n", prop)
	return 0
}

func streamLen(t [][]uint32, i int) int {
	if i < len(t) {
		return len(t[i])
	}
	return 0
}

func traceLen(t [][]uint32) int {
	n := 0
	for _, s := range t {
		n += len(s)
	}
	return n
}

func maxf(a, b float64) float64 {
	if a > b {
		return a
	}
	return b
}

func printMap(title string, m map[string]int) {
	if len(m) == 0 {
		return
	}
	ks := make([]string, 0, len(m))
	for k := range m {
		ks = append(ks, k)
	}
	sort.Strings(ks)
	fmt.Printf("  %s:\n", title)
	for _, k := range ks {
		fmt.Printf("    %-60s %d\n", k, m[k])
	}
}

func tail(s string, n int) string {
	lines := strings.Split(s, "\n")
	if len(lines) > n {
		lines = lines[len(lines)-n:]
	}
	return strings.Join(lines, "\n")
}

// replayOnce runs a replay file in a fresh worker process.
func replayOnce(bin, prop, tr, path string) (bool, string) {
	outPath := filepath.Join(scratch, "replay-check.json")
	_ = os.Remove(outPath)
	out, err := runWorker(bin, os.Environ(), "VERIF_PROP="+prop, "VERIF_TIER="+tr, "VERIF_REPLAY="+path, "VERIF_OUT="+outPath, "VERIF_KNOWN=", "GOMAXPROCS=2")
	if err != nil {
		return false, out
	}
	var r struct {
		Reproduced bool `json:"reproduced"`
	}
	rb, _ := os.ReadFile(outPath)
	if json.Unmarshal(rb, &r) != nil {
		return false, "unreadable"
	}
	return r.Reproduced, ""
}

func replay(path string) int {
	b, err := os.ReadFile(path)
	if err != nil {
		die(2, "replay: %v", err)
	}
	var f found
	if err := json.Unmarshal(b, &f); err != nil {
		die(2, "replay: %v", err)
	}
	abs, _ := filepath.Abs(path)
	bin := build(false)
	defer cleanup()
	outPath := filepath.Join(scratch, "replay.json")
	out, err := runWorker(bin, os.Environ(), "VERIF_PROP="+f.Property, "VERIF_TIER="+tier(), "VERIF_REPLAY="+abs, "VERIF_OUT="+outPath,
		"VERIF_KNOWN=")
	if err != nil {
		fmt.Print(out)
		die(2, "replay worker failed: %v", err)
	}
	var r struct {
		Reproduced bool     `json:"reproduced"`
		SameLog    bool     `json:"same_log"`
		Violation  string   `json:"violation"`
		Log        []string `json:"log"`
	}
	rb, _ := os.ReadFile(outPath)
	if json.Unmarshal(rb, &r) != nil {
		die(2, "replay result unreadable")
	}
	for _, l := range r.Log {
		fmt.Println("  " + l)
	}
	if r.Reproduced {
		fmt.Printf("reproduced: %s (event log identical: %v)\n", r.Violation, r.SameLog)
		fmt.Printf("VIOLATION property=%s replay=%s\n", f.Property, abs)
		return 1
	}
	fmt.Printf("NOT reproduced on this tree: %s/%s (event log identical: %v)\n", f.Property, f.Clause, r.SameLog)
	return 0
}

func main() {
	if len(os.Args) < 2 {
		fmt.Fprintln(os.Stderr, "usage: driver check <ID> | replay <file> | determinism [ID…] | passthrough")
		os.Exit(2)
	}
	switch os.Args[1] {
	case "check":
		if len(os.Args) < 3 {
			die(2, "check needs a property id")
		}
		os.Exit(check(os.Args[2], tier()))
	case "replay":
		if len(os.Args) < 3 {
			die(2, "replay needs a file")
		}
		os.Exit(replay(os.Args[2]))
	case "determinism":
		os.Exit(determinism(os.Args[2:]))
	case "passthrough":
		os.Exit(passthrough())
	case "conformance":
		os.Exit(conformance())
	default:
		die(2, "unknown command %q", os.Args[1])
	}
}
