package main

import (
	"encoding/json"
	"fmt"
	"os"
	"os/exec"
	"path/filepath"
	"strconv"
	"strings"
)

// determinism runs the same seeds in several OS processes at several
// GOMAXPROCS values and compares the per-run history hashes (DESIGN.md 7.1).
func determinism(props []string) int {
	if len(props) == 0 {
		props = []string{"C01", "C03", "C04", "C05", "C06", "C07", "C08", "C09", "C10", "C11", "C12", "C13", "C15", "C16", "C17", "C18", "C20"}
	}
	bin := build(false)
	defer cleanup()
	n := 150
	if v := os.Getenv("VERIF_DET_RUNS"); v != "" {
		n, _ = strconv.Atoi(v)
	}
	sd := seed()
	bad := 0
	for _, p := range props {
		var ref []string
		procs := []int{1, 4, 16, 1, 4, 16, 2, 8}
		for i, gmp := range procs {
			outPath := filepath.Join(scratch, fmt.Sprintf("det-%s-%d.json", p, i))
			out, err := runWorker(bin, os.Environ(), "VERIF_PROP="+p, "VERIF_DETERMINISM="+strconv.Itoa(n),
				"VERIF_SEED="+strconv.FormatUint(sd, 10), "VERIF_OUT="+outPath, "GOMAXPROCS="+strconv.Itoa(gmp), "VERIF_KNOWN=")
			if err != nil {
				if strings.Contains(out, "no world registered") {
					fmt.Printf("determinism %s: no world registered, skipped\n", p)
					ref = nil
					break
				}
				fmt.Print(out)
				fmt.Printf("determinism %s: worker failed: %v\n", p, err)
				bad++
				break
			}
			var hashes []string
			b, _ := os.ReadFile(outPath)
			if json.Unmarshal(b, &hashes) != nil {
				fmt.Printf("determinism %s: unreadable output\n", p)
				bad++
				break
			}
			if ref == nil {
				ref = hashes
				continue
			}
			diff := 0
			for k := range ref {
				if k >= len(hashes) || hashes[k] != ref[k] {
					if diff < 5 {
						fmt.Printf("determinism %s: run %d differs in process %d (GOMAXPROCS=%d)\n", p, k, i, gmp)
					}
					diff++
				}
			}
			if diff > 0 {
				bad++
				fmt.Printf("determinism %s: %d of %d runs differ\n", p, diff, len(ref))
				break
			}
		}
		if ref != nil {
			fmt.Printf("determinism %s: %d runs x 2 in-process x %d processes (GOMAXPROCS 1,2,4,8,16) identical\n", p, len(ref), len(procs))
		}
	}
	if bad > 0 {
		fmt.Println("DETERMINISM MISMATCH (harness trouble, exit 2)")
		return 2
	}
	return 0
}

// passthrough runs go-sse's own test suite on the instrumented copy with no
// simulator installed: instrumentation must preserve behaviour (DESIGN.md 7.3).
func passthrough() int {
	build(false)
	defer cleanup()
	out, err := runCmd(filepath.Join(scratch, "repo"), goEnv(), goRoot+"/bin/go", "test", "-vet=off", "-count=1", ".", "./internal/...")
	fmt.Print(out)
	if err != nil {
		fmt.Println("passthrough: go-sse's suite FAILED on the instrumented copy")
		return 2
	}
	fmt.Println("passthrough: go-sse's suite passes on the instrumented copy (hooks in pass-through mode)")
	return 0
}

// conformance compares simnet's model of net/http with the real thing over
// loopback (DESIGN.md 2.5). It can only warn: exit status is 0 unless the
// probe could not run at all.
func conformance() int {
	bin := build(false)
	defer cleanup()
	cmd := exec.Command(bin, "-test.run", "^TestConformance$", "-test.v", "-test.timeout", "120s")
	cmd.Env = append(os.Environ(), "VERIF_CONFORMANCE=1")
	out, err := cmd.CombinedOutput()
	for _, l := range strings.Split(string(out), "\n") {
		if strings.Contains(l, "agrees") || strings.Contains(l, "DISAGREES") || strings.Contains(l, "WARNING") || strings.Contains(l, "all ") {
			fmt.Println(strings.TrimSpace(l))
		}
	}
	if err != nil {
		fmt.Printf("conformance probe could not complete: %v\n%s\n", err, tail(string(out), 20))
		return 2
	}
	return 0
}
