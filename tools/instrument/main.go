// Command instrument rewrites the non-test Go files of one package directory so
// that every synchronisation operation goes through package verifhook.
//
// It is purely syntactic / type-directed (see DESIGN.md 2.3) and knows nothing
// about go-sse by name:
//
//	ch <- v                → verifhook.Send(site, ch, v)
//	<-ch (any expression)  → verifhook.Recv(site, ch)
//	v, ok := <-ch          → v, ok := verifhook.Recv2(site, ch)
//	close(ch)              → verifhook.Close(site, ch)
//	select {…}             → yield; simulator-ordered non-blocking try phase; the original
//	                          blocking select if nothing was ready; yield; switch on the taken case
//	go f(a…)               → verifhook.Go(site, func(){ f(tmp…) })
//	for k, v := range map  → for _, k := range verifhook.MapKeys(site, m) { v, ok := m[k]; if !ok {continue}; … }
//	for v := range ch      → for { v, ok := verifhook.Recv2(site, ch); if !ok {break}; … }
//	mu.Lock()/RLock()      → verifhook.BeforeLock(site, &mu, kind); mu.Lock()
//	mu.Unlock()/RUnlock()  → mu.Unlock(); verifhook.AfterUnlock(&mu, kind)   (also deferred)
//	mu.TryLock()/TryRLock() → verifhook.TryLock(site, &mu, kind, mu.TryLock)  (expression position)
//	once.Do(f)             → verifhook.OnceDo(site, &once, f)
//
// usage: instrument -dir <package dir> -hook <import path of verifhook>
//
// Standard library only.
package main

import (
	"bytes"
	"flag"
	"fmt"
	"go/ast"
	"go/format"
	"go/importer"
	"go/parser"
	"go/printer"
	"go/token"
	"go/types"
	"io"
	"os"
	"os/exec"
	"path/filepath"
	"sort"
	"strconv"
	"strings"
)

const hookName = "verifhook"

var (
	fset     = token.NewFileSet()
	info     *types.Info
	counter  int
	usedHook bool
	warnings []string
	stats    = map[string]int{}
	curFile  string
)

func main() {
	dir := flag.String("dir", "", "package directory (rewritten in place)")
	hook := flag.String("hook", "", "import path of the verifhook package")
	flag.Parse()
	if *dir == "" || *hook == "" {
		fmt.Fprintln(os.Stderr, "usage: instrument -dir <dir> -hook <import path>")
		os.Exit(2)
	}
	if err := run(*dir, *hook); err != nil {
		fmt.Fprintln(os.Stderr, "instrument:", err)
		os.Exit(2)
	}
	keys := make([]string, 0, len(stats))
	for k := range stats {
		keys = append(keys, k)
	}
	sort.Strings(keys)
	var sb strings.Builder
	for _, k := range keys {
		fmt.Fprintf(&sb, " %s=%d", k, stats[k])
	}
	fmt.Printf("instrument: sites:%s\n", sb.String())
	for _, w := range warnings {
		fmt.Printf("instrument: WARNING %s\n", w)
	}
}

func run(dir, hookPath string) error {
	ents, err := os.ReadDir(dir)
	if err != nil {
		return err
	}
	var files []*ast.File
	var names []string
	for _, e := range ents {
		n := e.Name()
		if e.IsDir() || !strings.HasSuffix(n, ".go") || strings.HasSuffix(n, "_test.go") {
			continue
		}
		f, err := parser.ParseFile(fset, filepath.Join(dir, n), nil, parser.SkipObjectResolution)
		if err != nil {
			return err
		}
		files = append(files, f)
		names = append(names, n)
	}
	if len(files) == 0 {
		return fmt.Errorf("no go files in %s", dir)
	}

	exports, err := exportMap(dir)
	if err != nil {
		return err
	}
	imp := importer.ForCompiler(fset, "gc", func(path string) (io.ReadCloser, error) {
		p, ok := exports[path]
		if !ok || p == "" {
			return nil, fmt.Errorf("no export data for %q", path)
		}
		return os.Open(p)
	})
	info = &types.Info{
		Types:      map[ast.Expr]types.TypeAndValue{},
		Uses:       map[*ast.Ident]types.Object{},
		Defs:       map[*ast.Ident]types.Object{},
		Selections: map[*ast.SelectorExpr]*types.Selection{},
	}
	conf := types.Config{Importer: imp, Error: func(err error) {}}
	if _, err := conf.Check(files[0].Name.Name, fset, files, info); err != nil {
		return fmt.Errorf("type check: %w", err)
	}

	for i, f := range files {
		usedHook = false
		curFile = names[i]
		for _, d := range f.Decls {
			if fd, ok := d.(*ast.FuncDecl); ok && fd.Body != nil {
				fd.Body.List = rewriteList(fd.Body.List)
			} else if gd, ok := d.(*ast.GenDecl); ok {
				// function literals in package-level initialisers
				for _, sp := range gd.Specs {
					if vs, ok := sp.(*ast.ValueSpec); ok {
						for j := range vs.Values {
							vs.Values[j] = rewriteExpr(vs.Values[j])
						}
					}
				}
			}
		}
		if !usedHook {
			continue
		}
		addImport(f, hookPath)
		f.Comments = nil
		stripDocs(f)
		var buf bytes.Buffer
		if err := (&printer.Config{Mode: printer.UseSpaces | printer.TabIndent, Tabwidth: 8}).Fprint(&buf, fset, f); err != nil {
			return fmt.Errorf("print %s: %w", names[i], err)
		}
		out, err := format.Source(buf.Bytes())
		if err != nil {
			_ = os.WriteFile(filepath.Join(dir, names[i]+".broken"), buf.Bytes(), 0o644)
			return fmt.Errorf("format %s: %w", names[i], err)
		}
		if err := os.WriteFile(filepath.Join(dir, names[i]), out, 0o644); err != nil {
			return err
		}
	}
	return nil
}

func stripDocs(f *ast.File) {
	f.Doc = nil
	ast.Inspect(f, func(n ast.Node) bool {
		switch v := n.(type) {
		case *ast.FuncDecl:
			v.Doc = nil
		case *ast.GenDecl:
			v.Doc = nil
		case *ast.Field:
			v.Doc, v.Comment = nil, nil
		case *ast.ValueSpec:
			v.Doc, v.Comment = nil, nil
		case *ast.TypeSpec:
			v.Doc, v.Comment = nil, nil
		case *ast.ImportSpec:
			v.Doc, v.Comment = nil, nil
		}
		return true
	})
}

func exportMap(dir string) (map[string]string, error) {
	cmd := exec.Command("go", "list", "-export", "-deps", "-f", "{{.ImportPath}}\t{{.Export}}", ".")
	cmd.Dir = dir
	var stderr bytes.Buffer
	cmd.Stderr = &stderr
	out, err := cmd.Output()
	if err != nil {
		return nil, fmt.Errorf("go list -export: %v: %s", err, stderr.String())
	}
	m := map[string]string{}
	for _, line := range strings.Split(string(out), "\n") {
		parts := strings.SplitN(line, "\t", 2)
		if len(parts) == 2 {
			m[parts[0]] = parts[1]
		}
	}
	return m, nil
}

func addImport(f *ast.File, path string) {
	spec := &ast.ImportSpec{Name: ast.NewIdent(hookName), Path: &ast.BasicLit{Kind: token.STRING, Value: strconv.Quote(path)}}
	decl := &ast.GenDecl{Tok: token.IMPORT, Specs: []ast.Spec{spec}}
	f.Decls = append([]ast.Decl{decl}, f.Decls...)
	f.Imports = append(f.Imports, spec)
}

// ---------------------------------------------------------------- helpers

func id(s string) *ast.Ident { return ast.NewIdent(s) }

func str(s string) *ast.BasicLit { return &ast.BasicLit{Kind: token.STRING, Value: strconv.Quote(s)} }

func intLit(i int) *ast.BasicLit { return &ast.BasicLit{Kind: token.INT, Value: strconv.Itoa(i)} }

func hook(fn string, args ...ast.Expr) *ast.CallExpr {
	usedHook = true
	return &ast.CallExpr{Fun: &ast.SelectorExpr{X: id(hookName), Sel: id(fn)}, Args: args}
}

func exprStmt(e ast.Expr) ast.Stmt { return &ast.ExprStmt{X: e} }

func define(lhs []ast.Expr, rhs ...ast.Expr) ast.Stmt {
	return &ast.AssignStmt{Lhs: lhs, Tok: token.DEFINE, Rhs: rhs}
}

func assign(lhs []ast.Expr, rhs ...ast.Expr) ast.Stmt {
	return &ast.AssignStmt{Lhs: lhs, Tok: token.ASSIGN, Rhs: rhs}
}

func blank(e ast.Expr) ast.Stmt { return assign([]ast.Expr{id("_")}, e) }

func site(n ast.Node) string {
	p := fset.Position(n.Pos())
	return fmt.Sprintf("%s:%d", filepath.Base(p.Filename), p.Line)
}

func fresh(prefix string) string {
	counter++
	return fmt.Sprintf("_vh%d%s", counter, prefix)
}

func unparen(e ast.Expr) ast.Expr {
	for {
		p, ok := e.(*ast.ParenExpr)
		if !ok {
			return e
		}
		e = p.X
	}
}

func isRecv(e ast.Expr) (*ast.UnaryExpr, bool) {
	u, ok := unparen(e).(*ast.UnaryExpr)
	if ok && u.Op == token.ARROW {
		return u, true
	}
	return nil, false
}

func warn(n ast.Node, format string, a ...any) {
	warnings = append(warnings, site(n)+": "+fmt.Sprintf(format, a...))
}

func typeOf(e ast.Expr) types.Type {
	if tv, ok := info.Types[e]; ok {
		return tv.Type
	}
	return nil
}

func isMap(e ast.Expr) bool {
	t := typeOf(e)
	if t == nil {
		return false
	}
	_, ok := t.Underlying().(*types.Map)
	return ok
}

func isChan(e ast.Expr) bool {
	t := typeOf(e)
	if t == nil {
		return false
	}
	_, ok := t.Underlying().(*types.Chan)
	return ok
}

// syncMethod reports which sync primitive method a call is, e.g. "Mutex.Lock".
func syncMethod(call *ast.CallExpr) (recv ast.Expr, name string) {
	sel, ok := call.Fun.(*ast.SelectorExpr)
	if !ok {
		return nil, ""
	}
	s := info.Selections[sel]
	if s == nil || s.Kind() != types.MethodVal {
		return nil, ""
	}
	fn, ok := s.Obj().(*types.Func)
	if !ok || fn.Pkg() == nil || fn.Pkg().Path() != "sync" {
		return nil, ""
	}
	sig := fn.Type().(*types.Signature)
	if sig.Recv() == nil {
		return nil, ""
	}
	rt := sig.Recv().Type()
	if p, ok := rt.(*types.Pointer); ok {
		rt = p.Elem()
	}
	named, ok := rt.(*types.Named)
	if !ok {
		return nil, ""
	}
	return sel.X, named.Obj().Name() + "." + fn.Name()
}

// addrOf returns an expression for the address of the sync primitive that x denotes.
func addrOf(x ast.Expr) ast.Expr {
	if t := typeOf(x); t != nil {
		if _, ok := t.Underlying().(*types.Pointer); ok {
			return x
		}
	}
	return &ast.UnaryExpr{Op: token.AND, X: x}
}

var tryLockKinds = map[string]string{"Mutex.TryLock": "w", "RWMutex.TryLock": "w", "RWMutex.TryRLock": "r"}

var lockKinds = map[string]string{
	"Mutex.Lock": "w", "Mutex.Unlock": "w",
	"RWMutex.Lock": "w", "RWMutex.Unlock": "w",
	"RWMutex.RLock": "r", "RWMutex.RUnlock": "r",
}

// ---------------------------------------------------------------- statements

func rewriteList(list []ast.Stmt) []ast.Stmt {
	var out []ast.Stmt
	for _, s := range list {
		out = append(out, rewriteStmt(s, nil)...)
	}
	return out
}

func rewriteBlock(b *ast.BlockStmt) {
	if b != nil {
		b.List = rewriteList(b.List)
	}
}

func wrapLabel(label *ast.Ident, s ast.Stmt) ast.Stmt {
	if label == nil {
		return s
	}
	return &ast.LabeledStmt{Label: label, Stmt: s}
}

// rewriteStmt returns the statements replacing s. label is the label attached
// to s in the original (it is re-attached to the statement that keeps s's
// break/continue meaning).
func rewriteStmt(s ast.Stmt, label *ast.Ident) []ast.Stmt {
	switch v := s.(type) {
	case nil:
		return nil
	case *ast.LabeledStmt:
		return rewriteStmt(v.Stmt, v.Label)
	case *ast.SelectStmt:
		return rewriteSelect(v, label)
	case *ast.SendStmt:
		stats["send"]++
		return []ast.Stmt{wrapLabel(label, exprStmt(hook("Send", str(site(v)), rewriteExpr(v.Chan), rewriteExpr(v.Value))))}
	case *ast.GoStmt:
		return rewriteGo(v, label)
	case *ast.RangeStmt:
		return rewriteRange(v, label)
	case *ast.ExprStmt:
		if call, ok := v.X.(*ast.CallExpr); ok {
			if recv, name := syncMethod(call); name != "" {
				if out := rewriteSyncCall(v, call, recv, name); out != nil {
					if label != nil {
						out[0] = wrapLabel(label, out[0])
					}
					return out
				}
			}
		}
		v.X = rewriteExpr(v.X)
		return []ast.Stmt{wrapLabel(label, v)}
	case *ast.DeferStmt:
		if recv, name := syncMethod(v.Call); name != "" {
			if kind, ok := lockKinds[name]; ok && strings.HasSuffix(name, "nlock") {
				stats["unlock"]++
				p := fresh("mu")
				body := &ast.BlockStmt{List: []ast.Stmt{
					exprStmt(&ast.CallExpr{Fun: &ast.SelectorExpr{X: id(p), Sel: id(v.Call.Fun.(*ast.SelectorExpr).Sel.Name)}}),
					exprStmt(hook("AfterUnlock", id(p), str(kind))),
				}}
				return []ast.Stmt{
					wrapLabel(label, define([]ast.Expr{id(p)}, addrOf(rewriteExpr(recv)))),
					&ast.DeferStmt{Call: &ast.CallExpr{Fun: &ast.FuncLit{Type: &ast.FuncType{Params: &ast.FieldList{}}, Body: body}}},
				}
			}
		}
		v.Call = rewriteExpr(v.Call).(*ast.CallExpr)
		return []ast.Stmt{wrapLabel(label, v)}
	case *ast.AssignStmt:
		// v, ok := <-ch
		if len(v.Lhs) == 2 && len(v.Rhs) == 1 {
			if u, ok := isRecv(v.Rhs[0]); ok {
				stats["recv"]++
				v.Rhs[0] = hook("Recv2", str(site(v)), rewriteExpr(u.X))
				for i := range v.Lhs {
					v.Lhs[i] = rewriteExpr(v.Lhs[i])
				}
				return []ast.Stmt{wrapLabel(label, v)}
			}
		}
		var pre []ast.Stmt
		for i := range v.Lhs {
			var p ast.Stmt
			v.Lhs[i], p = rewriteLHS(v.Lhs[i], v.Tok)
			if p != nil {
				pre = append(pre, p)
			}
		}
		for i := range v.Rhs {
			v.Rhs[i] = rewriteExpr(v.Rhs[i])
		}
		out := append(pre, ast.Stmt(v))
		out[0] = wrapLabel(label, out[0])
		return out
	case *ast.DeclStmt:
		if gd, ok := v.Decl.(*ast.GenDecl); ok {
			for _, sp := range gd.Specs {
				if vs, ok := sp.(*ast.ValueSpec); ok {
					if len(vs.Names) == 2 && len(vs.Values) == 1 {
						if u, ok := isRecv(vs.Values[0]); ok {
							stats["recv"]++
							vs.Values[0] = hook("Recv2", str(site(v)), rewriteExpr(u.X))
							continue
						}
					}
					for j := range vs.Values {
						vs.Values[j] = rewriteExpr(vs.Values[j])
					}
				}
			}
		}
		return []ast.Stmt{wrapLabel(label, v)}
	case *ast.ReturnStmt:
		for i := range v.Results {
			v.Results[i] = rewriteExpr(v.Results[i])
		}
		return []ast.Stmt{wrapLabel(label, v)}
	case *ast.IncDecStmt:
		var p ast.Stmt
		v.X, p = rewriteLHS(v.X, token.ASSIGN)
		if p != nil {
			return []ast.Stmt{wrapLabel(label, p), v}
		}
		return []ast.Stmt{wrapLabel(label, v)}
	case *ast.BlockStmt:
		rewriteBlock(v)
		return []ast.Stmt{wrapLabel(label, v)}
	case *ast.IfStmt:
		rewriteIf(v)
		return []ast.Stmt{wrapLabel(label, v)}
	case *ast.ForStmt:
		v.Init = single(v.Init)
		if v.Cond != nil {
			v.Cond = rewriteExpr(v.Cond)
		}
		v.Post = single(v.Post)
		rewriteBlock(v.Body)
		return []ast.Stmt{wrapLabel(label, v)}
	case *ast.SwitchStmt:
		v.Init = single(v.Init)
		if v.Tag != nil {
			v.Tag = rewriteExpr(v.Tag)
		}
		for _, c := range v.Body.List {
			cc := c.(*ast.CaseClause)
			for i := range cc.List {
				cc.List[i] = rewriteExpr(cc.List[i])
			}
			cc.Body = rewriteList(cc.Body)
		}
		return []ast.Stmt{wrapLabel(label, v)}
	case *ast.TypeSwitchStmt:
		v.Init = single(v.Init)
		v.Assign = single(v.Assign)
		for _, c := range v.Body.List {
			cc := c.(*ast.CaseClause)
			cc.Body = rewriteList(cc.Body)
		}
		return []ast.Stmt{wrapLabel(label, v)}
	default:
		// BranchStmt, EmptyStmt, …
		return []ast.Stmt{wrapLabel(label, s)}
	}
}

// rewriteLHS rewrites an assignment target: an element of a map is a map
// write, a field reached through a pointer is a field write (reported by a
// statement that precedes the assignment).
func rewriteLHS(e ast.Expr, tok token.Token) (ast.Expr, ast.Stmt) {
	if tok == token.DEFINE {
		return rewriteExpr(e), nil
	}
	switch v := unparen(e).(type) {
	case *ast.IndexExpr:
		if isMap(v.X) {
			st := site(v)
			v.X = rewriteExpr(v.X)
			v.Index = rewriteExpr(v.Index)
			stats["mapwrite"]++
			v.X = hook("MW", str(st), v.X)
			return v, nil
		}
	case *ast.SelectorExpr:
		if sel := info.Selections[v]; sel != nil && sel.Kind() == types.FieldVal {
			if t := typeOf(v.X); t != nil {
				if _, isPtr := t.Underlying().(*types.Pointer); isPtr && pureExpr(v.X) {
					stats["fieldwrite"]++
					return e, exprStmt(hook("FW", str(site(v)), &ast.UnaryExpr{Op: token.AND, X: &ast.SelectorExpr{X: v.X, Sel: v.Sel}}))
				}
			}
		}
	}
	return rewriteExpr(e), nil
}

// pureExpr: identifiers and field selections only (safe to evaluate twice).
func pureExpr(e ast.Expr) bool {
	switch v := unparen(e).(type) {
	case *ast.Ident:
		return true
	case *ast.SelectorExpr:
		return pureExpr(v.X)
	case *ast.StarExpr:
		return pureExpr(v.X)
	}
	return false
}

// single rewrites a statement in a position where only one statement is allowed.
func single(s ast.Stmt) ast.Stmt {
	if s == nil {
		return nil
	}
	out := rewriteStmt(s, nil)
	if len(out) != 1 {
		warn(s, "synchronisation operation in a simple-statement position is not instrumented")
		return s
	}
	return out[0]
}

func rewriteIf(v *ast.IfStmt) {
	v.Init = single(v.Init)
	v.Cond = rewriteExpr(v.Cond)
	rewriteBlock(v.Body)
	switch e := v.Else.(type) {
	case *ast.IfStmt:
		rewriteIf(e)
	case *ast.BlockStmt:
		rewriteBlock(e)
	}
}

func rewriteSyncCall(st *ast.ExprStmt, call *ast.CallExpr, recv ast.Expr, name string) []ast.Stmt {
	if kind, ok := lockKinds[name]; ok {
		recv = rewriteExpr(recv)
		call.Fun.(*ast.SelectorExpr).X = recv
		if strings.HasSuffix(name, "nlock") {
			stats["unlock"]++
			return []ast.Stmt{st, exprStmt(hook("AfterUnlock", addrOf(recv), str(kind)))}
		}
		stats["lock"]++
		return []ast.Stmt{exprStmt(hook("BeforeLock", str(site(st)), addrOf(recv), str(kind))), st}
	}
	if name == "Once.Do" && len(call.Args) == 1 {
		stats["once"]++
		return []ast.Stmt{exprStmt(hook("OnceDo", str(site(st)), addrOf(rewriteExpr(recv)), rewriteExpr(call.Args[0])))}
	}
	if strings.HasPrefix(name, "Mutex.") || strings.HasPrefix(name, "RWMutex.") || strings.HasPrefix(name, "Cond.") || strings.HasPrefix(name, "WaitGroup.") {
		warn(st, "sync.%s is not instrumented", name)
	}
	return nil
}

func rewriteGo(g *ast.GoStmt, label *ast.Ident) []ast.Stmt {
	stats["go"]++
	var pre []ast.Stmt
	call := g.Call
	if fl, ok := call.Fun.(*ast.FuncLit); ok && len(call.Args) == 0 {
		rewriteBlock(fl.Body)
		return []ast.Stmt{wrapLabel(label, exprStmt(hook("Go", str(site(g)), fl)))}
	}
	// evaluate function value (receiver) and arguments now, as the go statement does
	newCall := &ast.CallExpr{Fun: call.Fun, Ellipsis: call.Ellipsis}
	switch f := call.Fun.(type) {
	case *ast.FuncLit:
		rewriteBlock(f.Body)
	case *ast.SelectorExpr:
		if s := info.Selections[f]; s != nil && s.Kind() == types.MethodVal {
			// bind the method value now: receiver evaluated at the go statement
			fn := fresh("fn")
			pre = append(pre, define([]ast.Expr{id(fn)}, rewriteExpr(f)))
			newCall.Fun = id(fn)
		}
	}
	for _, a := range call.Args {
		t := fresh("a")
		pre = append(pre, define([]ast.Expr{id(t)}, rewriteExpr(a)))
		newCall.Args = append(newCall.Args, id(t))
	}
	body := &ast.BlockStmt{List: []ast.Stmt{exprStmt(newCall)}}
	lit := &ast.FuncLit{Type: &ast.FuncType{Params: &ast.FieldList{}}, Body: body}
	out := append(pre, exprStmt(hook("Go", str(site(g)), lit)))
	out[0] = wrapLabel(label, out[0])
	return out
}

func rewriteRange(r *ast.RangeStmt, label *ast.Ident) []ast.Stmt {
	r.X = rewriteExpr(r.X)
	rewriteBlock(r.Body)
	orig := r.X
	switch {
	case isMap(orig) && r.Tok == token.DEFINE && r.Key != nil:
		stats["maprange"]++
		m := fresh("m")
		pre := define([]ast.Expr{id(m)}, orig)
		keyIdent, _ := r.Key.(*ast.Ident)
		keyName := "_"
		if keyIdent != nil {
			keyName = keyIdent.Name
		}
		needKey := keyName
		if needKey == "_" {
			needKey = fresh("k")
		}
		var head []ast.Stmt
		ok := fresh("ok")
		valName := "_"
		if vi, isId := r.Value.(*ast.Ident); r.Value != nil && isId {
			valName = vi.Name
		}
		head = append(head,
			define([]ast.Expr{id(valName), id(ok)}, &ast.IndexExpr{X: id(m), Index: id(needKey)}),
			&ast.IfStmt{Cond: &ast.UnaryExpr{Op: token.NOT, X: id(ok)}, Body: &ast.BlockStmt{List: []ast.Stmt{&ast.BranchStmt{Tok: token.CONTINUE}}}},
		)
		nr := &ast.RangeStmt{
			Key: id("_"), Value: id(needKey), Tok: token.DEFINE,
			X:    hook("MapKeys", str(site(r)), id(m)),
			Body: &ast.BlockStmt{List: append(head, r.Body.List...)},
		}
		return []ast.Stmt{pre, wrapLabel(label, nr)}
	case isMap(orig) && r.Key != nil:
		warn(r, "range over map with assignment form is not instrumented (iteration order stays random)")
	case isChan(orig):
		stats["chanrange"]++
		c := fresh("c")
		pre := define([]ast.Expr{id(c)}, orig)
		ok := fresh("ok")
		var lhs ast.Expr = id("_")
		tok := token.DEFINE
		if r.Key != nil {
			lhs = r.Key
			tok = r.Tok
		}
		var recv ast.Stmt
		if tok == token.DEFINE {
			recv = define([]ast.Expr{lhs, id(ok)}, hook("Recv2", str(site(r)), id(c)))
		} else {
			recv = &ast.DeclStmt{Decl: &ast.GenDecl{Tok: token.VAR, Specs: []ast.Spec{&ast.ValueSpec{Names: []*ast.Ident{id(ok)}, Type: id("bool")}}}}
			// x, ok = …
			return []ast.Stmt{pre, wrapLabel(label, &ast.ForStmt{Body: &ast.BlockStmt{List: append([]ast.Stmt{
				recv,
				assign([]ast.Expr{lhs, id(ok)}, hook("Recv2", str(site(r)), id(c))),
				&ast.IfStmt{Cond: &ast.UnaryExpr{Op: token.NOT, X: id(ok)}, Body: &ast.BlockStmt{List: []ast.Stmt{&ast.BranchStmt{Tok: token.BREAK}}}},
			}, r.Body.List...)}})}
		}
		return []ast.Stmt{pre, wrapLabel(label, &ast.ForStmt{Body: &ast.BlockStmt{List: append([]ast.Stmt{
			recv,
			&ast.IfStmt{Cond: &ast.UnaryExpr{Op: token.NOT, X: id(ok)}, Body: &ast.BlockStmt{List: []ast.Stmt{&ast.BranchStmt{Tok: token.BREAK}}}},
		}, r.Body.List...)}})}
	}
	return []ast.Stmt{wrapLabel(label, r)}
}

func rewriteSelect(sel *ast.SelectStmt, label *ast.Ident) []ast.Stmt {
	stats["select"]++
	st := site(sel)
	counter++
	pfx := fmt.Sprintf("_vh%d", counter)
	idx := pfx + "idx"

	type caseInfo struct {
		clause *ast.CommClause
		comm   func() ast.Stmt // the communication on temporaries (fresh AST each call)
		bind   ast.Stmt        // statement binding the received values at the head of the body
	}
	var pre []ast.Stmt
	var cases []caseInfo
	var def *ast.CommClause
	n := 0
	for _, c := range sel.Body.List {
		cc := c.(*ast.CommClause)
		if cc.Comm == nil {
			def = cc
			continue
		}
		i := n
		n++
		cn := fmt.Sprintf("%sc%d", pfx, i)
		ci := caseInfo{clause: cc}
		switch comm := cc.Comm.(type) {
		case *ast.SendStmt:
			sn := fmt.Sprintf("%ss%d", pfx, i)
			pre = append(pre,
				define([]ast.Expr{id(cn)}, rewriteExpr(comm.Chan)),
				define([]ast.Expr{id(sn)}, hook("SendVal", id(cn), rewriteExpr(comm.Value))),
			)
			ci.comm = func() ast.Stmt { return &ast.SendStmt{Chan: id(cn), Value: id(sn)} }
		case *ast.ExprStmt:
			u, ok := isRecv(comm.X)
			if !ok {
				warn(sel, "unrecognised select communication; statement left unchanged")
				return []ast.Stmt{wrapLabel(label, sel)}
			}
			pre = append(pre, define([]ast.Expr{id(cn)}, rewriteExpr(u.X)))
			ci.comm = func() ast.Stmt { return exprStmt(&ast.UnaryExpr{Op: token.ARROW, X: id(cn)}) }
		case *ast.AssignStmt:
			u, ok := isRecv(comm.Rhs[0])
			if !ok || len(comm.Rhs) != 1 {
				warn(sel, "unrecognised select communication; statement left unchanged")
				return []ast.Stmt{wrapLabel(label, sel)}
			}
			vn := fmt.Sprintf("%sv%d", pfx, i)
			on := fmt.Sprintf("%sok%d", pfx, i)
			pre = append(pre,
				define([]ast.Expr{id(cn)}, rewriteExpr(u.X)),
				define([]ast.Expr{id(vn)}, hook("ZeroOf", id(cn))),
				define([]ast.Expr{id(on)}, id("false")),
				blank(id(vn)), blank(id(on)),
			)
			ci.comm = func() ast.Stmt {
				return assign([]ast.Expr{id(vn), id(on)}, &ast.UnaryExpr{Op: token.ARROW, X: id(cn)})
			}
			rhs := []ast.Expr{id(vn)}
			if len(comm.Lhs) == 2 {
				rhs = append(rhs, id(on))
			}
			lhs := make([]ast.Expr, len(comm.Lhs))
			for k := range comm.Lhs {
				lhs[k] = rewriteExpr(comm.Lhs[k])
			}
			ci.bind = &ast.AssignStmt{Lhs: lhs, Tok: comm.Tok, Rhs: rhs}
		default:
			warn(sel, "unrecognised select communication; statement left unchanged")
			return []ast.Stmt{wrapLabel(label, sel)}
		}
		cases = append(cases, ci)
	}
	if n == 0 {
		// select {} or default only: nothing to order
		for _, c := range sel.Body.List {
			cc := c.(*ast.CommClause)
			cc.Body = rewriteList(cc.Body)
		}
		return []ast.Stmt{wrapLabel(label, sel)}
	}

	setIdx := func(i int) ast.Stmt { return assign([]ast.Expr{id(idx)}, intLit(i)) }

	// try phase
	kvar := pfx + "k"
	trySwitch := &ast.SwitchStmt{Tag: id(kvar), Body: &ast.BlockStmt{}}
	for i, ci := range cases {
		try := &ast.SelectStmt{Body: &ast.BlockStmt{List: []ast.Stmt{
			&ast.CommClause{Comm: ci.comm(), Body: []ast.Stmt{setIdx(i)}},
			&ast.CommClause{},
		}}}
		trySwitch.Body.List = append(trySwitch.Body.List, &ast.CaseClause{List: []ast.Expr{intLit(i)}, Body: []ast.Stmt{try}})
	}
	tryLoop := &ast.RangeStmt{
		Key: id("_"), Value: id(kvar), Tok: token.DEFINE,
		X: hook("Order", str(st), intLit(n)),
		Body: &ast.BlockStmt{List: []ast.Stmt{
			trySwitch,
			&ast.IfStmt{Cond: &ast.BinaryExpr{X: id(idx), Op: token.GEQ, Y: intLit(0)}, Body: &ast.BlockStmt{List: []ast.Stmt{&ast.BranchStmt{Tok: token.BREAK}}}},
		}},
	}

	// blocking phase
	blocking := &ast.SelectStmt{Body: &ast.BlockStmt{}}
	for i, ci := range cases {
		blocking.Body.List = append(blocking.Body.List, &ast.CommClause{Comm: ci.comm(), Body: []ast.Stmt{setIdx(i)}})
	}
	if def != nil {
		blocking.Body.List = append(blocking.Body.List, &ast.CommClause{Body: []ast.Stmt{setIdx(n)}})
	}
	blockIf := &ast.IfStmt{
		Cond: &ast.BinaryExpr{X: id(idx), Op: token.LSS, Y: intLit(0)},
		Body: &ast.BlockStmt{List: []ast.Stmt{
			exprStmt(hook("Blocking", str(st))),
			blocking,
		}},
	}

	// dispatch
	disp := &ast.SwitchStmt{Tag: id(idx), Body: &ast.BlockStmt{}}
	for i, ci := range cases {
		var body []ast.Stmt
		if ci.bind != nil {
			body = append(body, ci.bind)
		}
		body = append(body, rewriteList(ci.clause.Body)...)
		disp.Body.List = append(disp.Body.List, &ast.CaseClause{List: []ast.Expr{intLit(i)}, Body: body})
	}
	if def != nil {
		disp.Body.List = append(disp.Body.List, &ast.CaseClause{List: []ast.Expr{intLit(n)}, Body: rewriteList(def.Body)})
	}

	// keeps the statement terminating when the original select was
	disp.Body.List = append(disp.Body.List, &ast.CaseClause{Body: []ast.Stmt{
		exprStmt(&ast.CallExpr{Fun: id("panic"), Args: []ast.Expr{str("verifhook: unreachable select case")}}),
	}})

	out := []ast.Stmt{exprStmt(hook("Yield", str(st)))}
	out = append(out, pre...)
	out = append(out,
		define([]ast.Expr{id(idx)}, &ast.UnaryExpr{Op: token.SUB, X: intLit(1)}),
		tryLoop,
		blockIf,
		exprStmt(hook("After", str(st), id(idx))),
		wrapLabel(label, disp),
	)
	return out
}

// ---------------------------------------------------------------- expressions

// rewriteExpr rewrites receive expressions, close calls and function literal
// bodies inside e.
func rewriteExpr(e ast.Expr) ast.Expr {
	switch v := e.(type) {
	case nil:
		return nil
	case *ast.UnaryExpr:
		if v.Op == token.ARROW {
			stats["recv"]++
			return hook("Recv", str(site(v)), rewriteExpr(v.X))
		}
		v.X = rewriteExpr(v.X)
	case *ast.FuncLit:
		rewriteBlock(v.Body)
	case *ast.CallExpr:
		if fn, ok := v.Fun.(*ast.Ident); ok && fn.Name == "close" && len(v.Args) == 1 {
			if _, isBuiltin := info.Uses[fn].(*types.Builtin); isBuiltin {
				stats["close"]++
				return hook("Close", str(site(v)), rewriteExpr(v.Args[0]))
			}
		}
		if fn, ok := v.Fun.(*ast.Ident); ok && len(v.Args) >= 1 && isMap(v.Args[0]) {
			if _, isBuiltin := info.Uses[fn].(*types.Builtin); isBuiltin && (fn.Name == "delete" || fn.Name == "len") {
				st := site(v)
				for i := range v.Args {
					v.Args[i] = rewriteExpr(v.Args[i])
				}
				if fn.Name == "delete" {
					stats["mapwrite"]++
					v.Args[0] = hook("MW", str(st), v.Args[0])
				} else {
					stats["mapread"]++
					v.Args[0] = hook("MR", str(st), v.Args[0])
				}
				return v
			}
		}
		if recv, name := syncMethod(v); name != "" {
			if kind, ok := tryLockKinds[name]; ok && len(v.Args) == 0 {
				// mu.TryLock() → verifhook.TryLock(site, &mu, kind, mu.TryLock): decided by the scheduler's lock model
				stats["trylock"]++
				recv = rewriteExpr(recv)
				sel := v.Fun.(*ast.SelectorExpr)
				sel.X = recv
				return hook("TryLock", str(site(v)), addrOf(recv), str(kind), sel)
			}
			warn(v, "sync.%s in expression position is not instrumented", name)
		}
		v.Fun = rewriteExpr(v.Fun)
		for i := range v.Args {
			v.Args[i] = rewriteExpr(v.Args[i])
		}
	case *ast.ParenExpr:
		v.X = rewriteExpr(v.X)
	case *ast.BinaryExpr:
		v.X = rewriteExpr(v.X)
		v.Y = rewriteExpr(v.Y)
	case *ast.SelectorExpr:
		v.X = rewriteExpr(v.X)
	case *ast.IndexExpr:
		wasMap := isMap(v.X)
		st := site(v)
		v.X = rewriteExpr(v.X)
		v.Index = rewriteExpr(v.Index)
		if wasMap {
			stats["mapread"]++
			v.X = hook("MR", str(st), v.X)
		}
	case *ast.SliceExpr:
		v.X = rewriteExpr(v.X)
		v.Low, v.High, v.Max = rewriteExpr(v.Low), rewriteExpr(v.High), rewriteExpr(v.Max)
	case *ast.StarExpr:
		v.X = rewriteExpr(v.X)
	case *ast.TypeAssertExpr:
		v.X = rewriteExpr(v.X)
	case *ast.KeyValueExpr:
		v.Value = rewriteExpr(v.Value)
	case *ast.CompositeLit:
		for i := range v.Elts {
			v.Elts[i] = rewriteExpr(v.Elts[i])
		}
	}
	return e
}
