module verif/instrument

go 1.26
