#!/bin/bash
# tools/regen_findings.sh — re-creates /verif/findings/*.json with the current harness: for every
# mutants/revert-fix-* (the reverse of a fix commit) the owning check is run against a scratch copy with the
# fix reverted; the minimised replay file it writes is stored, then replayed against the reverted copy (must
# reproduce) and against /repo (must not).
set -u
here=$(cd "$(dirname "$0")/.." && pwd)
for d in "$here"/mutants/revert-fix-*; do
  name=$(basename "$d"); prop=$(python3 -c "import json;print(json.load(open('$d/meta.json'))['property'])")
  s=$(mktemp -d /tmp/verif-mutant-XXXXXX); rsync -a --exclude .git /repo/ "$s/"; (cd "$s" && git init -q . && git apply "$d/patch.diff")
  out=$(VERIF_REPO="$s" VERIF_SEED=1 VERIF_SECONDS=${VERIF_SECONDS:-10} "$here/check" "$prop" 2>&1)
  f=$(echo "$out" | sed -n 's/^VIOLATION property=.* replay=//p' | head -1)
  if [ -z "$f" ]; then echo "$name: NOT FOUND by $prop"; rm -rf "$s"; continue; fi
  dst="$here/findings/${prop}-${name#revert-fix-}.json"; cp "$f" "$dst"
  r1=$(VERIF_REPO="$s" "$here/check" replay "$dst" 2>&1 | tail -1); r2=$("$here/check" replay "$dst" 2>&1 | tail -1)
  echo "$name -> $(basename "$dst")"; echo "   reverted tree: ${r1:0:120}"; echo "   /repo:         ${r2:0:120}"
  rm -rf "$s"
done
