#!/bin/bash
# deeper runs on the behaviour-preserving refactorings: every listed check, 100 s each
cd "$(dirname "$0")/.." 2>/dev/null || cd /verif
SELFTEST_SKIP_SUITE=1 VERIF_SECONDS=100 ./selftest mutants/fa-R16 mutants/fa-R17 mutants/fa-R19 mutants/fa-R20 mutants/fa-R22 mutants/fa-R23 mutants/fa-R24 mutants/fa-R25 mutants/fa-R26 mutants/fa-R27 mutants/fa-R3 mutants/fa-R12
